"""C11 — generated C is memory-safe and well-formed for every model."""
import os

import numpy as np
import torch

from harness import coqio, cparse, nets, compiled, asan, gennet
from harness.common import Check
from translate import gatecode as t_gc, wrapper as t_wr

THEOREMS = ["C11_safe_dense", "C11_safe_net", "C11_safe_emitted", "C11_safe_check_sound", "C11_deterministic", "C11_wrapper_safe", "C11_group_extent"]
TRUSTED = [
    "Coq 8.16.1 kernel/coqc; vm_compute evaluates the verified checker safe_check on each parsed program; theorems closed under the global context",
    "strict parser harness/cparse.py maps the emitted text to the modelled fragment (scalar const temporaries become cells of one pseudo-array)",
    "gcc/clang implement the fragment as modelled; stack exhaustion by large automatic arrays is a resource limit outside the property",
    "the wrapper shifts in the unsigned type of the word's width (F34); the sanitizer runs include the shift and signed-overflow checks; the narrowing conversions back to the signed word type are implementation-defined (modulo 2^W on gcc/clang)",
    "the library's predefined architectures (k_num = 1; Mini in the quick tier, Mnist/Tiny/Cifar10 in the thorough tier): the parsed "
    "text is compared with the proved generator model inside the kernel (streaming comparison gen_net_matchesN, proved sound: "
    "C11_safe_emitted); the Python mirror of the interpreter is additionally run for diagnostics",
]


def sample_models(ck):
    rng = ck.rng
    ms = []
    n_dense = 6 if ck.tier == "quick" else 40
    n_stack = 14 if ck.tier == "quick" else 120
    for i in range(n_dense):
        depth = rng.randrange(1, 7)
        widths = [rng.randrange(1, 10) for _ in range(depth)]
        ks = [None] + [d for d in range(1, widths[-1] + 1) if widths[-1] % d == 0]
        ms.append(("dense", nets.make_dense(rng, rng.randrange(1, 9), widths, flatten=rng.random() < 0.4, k=rng.choice(ks))))
    for name, shp, layers in nets.SYSTEMATIC_STACKS:
        ms.append((f"stack{len(shp) - 1}d", nets.make_custom(rng, shp, layers)))
    for i in range(n_stack):
        dims = 3 if i % 4 == 3 else 2
        param = "walsh" if (dims == 2 and i % 5 == 0) else "raw"
        ms.append((f"stack{dims}d", nets.make_stack(rng, dims=dims, param=param, max_in=24)))
    return ms


def spec_sizes(spec):
    n_in = int(np.prod(spec["input_shape"]))
    n_out = len(nets.eval_spec(spec, [0] * n_in))
    return n_in, n_out


def run(ck: Check):
    ck.trusted = TRUSTED
    ck.rule = ("random dense models (depth 1..6, with/without Flatten and GroupSum) and random conv2d/conv3d/pool/flatten/dense "
               "stacks (padding 0..2, stride <= rf, rectangular, 1..2 channels, depth 1..2, raw and Walsh): emitted text parsed, "
               "safe_check evaluated in the Coq kernel, Python mirror for diagnostics, ASan/UBSan standalone driver on random "
               "word inputs at -O0/-O2 with gcc and clang, outputs compared across optimisation levels and with the model "
               "interpreter; predefined architectures at k_num=1 through the Python mirror. Non-trivial: program has at least "
               "two layers or padding. Distinct = canonical JSON of the architecture + word size.")
    ck.translate("GateCode", t_gc.gen_gatecode)
    ck.translate("WrapperParams", t_wr.gen_wrapper_params)
    ck.prove("Props/C11", THEOREMS)
    rng = ck.rng
    pending = predefined_start(ck)
    items = []
    for idx, (kind, model) in enumerate(sample_models(ck)):
        W = [8, 16, 32, 64][idx % 4]
        spec = nets.extract(model)
        n_in, n_out = spec_sizes(spec)
        arch = [{k: v for k, v in l.items() if k in ("kind", "in_dim", "channels", "kernels", "depth", "rf", "stride", "padding", "dims", "kernel")}
                | ({"width": len(l["a"])} if l["kind"] == "dense" else {}) for l in spec["layers"]]
        case = {"kind": kind, "W": W, "arch": arch, "k": spec["k"]}
        pads = any(l.get("padding", 0) for l in spec["layers"])
        ck.case(case, nontrivial=len(arch) >= 2 or pads, kind=kind)
        net = compiled.build(model, W)
        text = net.get_c_code()
        if net.get_c_code() != text:
            ck.disagree("generating the C code twice from one CompiledLogicNet gives two different programs", case,
                        signature={"what": "regenerate", "kind": kind})
        try:
            p = cparse.parse_unit(text, W)
        except cparse.ParseError as e:
            if any(k in str(e) for k in ("undeclared array", "declared twice", "unknown name")):
                # not a form the parser does not know: the program names an array / a temporary that it does not declare (it would
                # not even compile, or it reads another layer's buffer) - this is the property failing, with the model as the input
                ck.disagree("generated logic_net is not well formed: it refers to an array or temporary that is not declared (or declares one twice)",
                            dict(case, parser=str(e)[:200]), signature={"what": "ill-formed", "kind": kind})
            ck.broke("correspondence", "parse emitted C", f"{kind} case {idx}: {e}")
            continue
        p["sizes"][0], p["sizes"][1] = n_in, n_out
        if p["holes"]:
            h = p["holes"]
            if h["in_size"] != n_in or h["n_out"] != n_out:
                ck.disagree("wrapper allocates temporaries of the wrong size", dict(case, holes=h, n_in=n_in, n_out=n_out),
                            signature={"what": "malloc-size"})
        # python mirror: pinpoints the offending access
        try:
            cparse.exec_prog(p, [0] * n_in, W)
            mirror_ok = True
        except (IndexError, KeyError) as e:
            mirror_ok = False
            ck.disagree("generated logic_net has an out-of-bounds or uninitialised access", dict(case, sizes=p["sizes"]),
                        observed=str(e), signature={"what": "unsafe-access", "kind": kind})
        items.append((idx, p, case, mirror_ok, text, spec, n_in, n_out))
    # kernel: verified checker on every parsed program
    for start in range(0, len(items), 25):
        chunk = items[start:start + 25]
        txt = ("From Coq Require Import ZArith List Bool. Import ListNotations.\nFrom TLX Require Import Model.CLang Model.Validate.\n")
        for idx, p, *_ in chunk:
            txt += f"Definition p{idx} : prog := {cparse.prog_coq(p)}.\n"
        txt += "Eval vm_compute in [" + "; ".join(f"safe_check p{idx}" for idx, *_ in chunk) + "].\n"
        rc, out, err = ck.coq_eval("c11safe", txt, timeout=900)
        if rc != 0:
            ck.broke("correspondence", "kernel safe_check", err[-600:])
            continue
        for (idx, p, case, mirror_ok, *_), ok in zip(chunk, coqio.parse_evals(out)[0]):
            ck.count("programs_safe_checked_in_kernel")
            if ok != mirror_ok:
                ck.broke("correspondence", "python mirror vs Model/CLang.exec", f"case {idx}: kernel {ok}, mirror {mirror_ok}")
            if not ok and mirror_ok:
                ck.disagree("safe_check rejects the generated program", case, signature={"what": "unsafe-access", "kind": case["kind"]})
    # conv/pool stacks: the parsed text is the proved generator model of its architecture (C11_safe_net applies)
    gennet.check_generator(ck, [(idx, spec, p, dict(case, name=case['kind'] + str(idx))) for idx, p, case, _, _, spec, _, _ in items
                                 if case['kind'] != 'dense'], label='c11gen')
    # sanitizer + optimisation-level independence
    sel = items[:: max(1, len(items) // (6 if ck.tier == "quick" else 30))]
    for idx, p, case, mirror_ok, text, spec, n_in, n_out in sel:
        W = case["W"]
        rows = [[cparse.wrapW(rng.getrandbits(W), W) for _ in range(n_in)] for _ in range(4)]
        ref = None
        if mirror_ok:
            ref = [v for r in rows for v in cparse.exec_prog(p, r, W)]
        outs = {}
        combos = [("gcc", 0, True), ("gcc", 2, True), ("clang", 1, False), ("gcc", 3, False)] if ck.tier == "quick" else \
            [(cc, o, s) for cc in ("gcc", "clang") for o in (0, 1, 2, 3) for s in ((True,) if o in (0, 2) else (False,))]
        for cc, opt, san in combos:
            try:
                exe = asan.build(text, ck.scratch, f"n{idx}{cc}{opt}", "net", W, compiler=cc, opt=opt, sanitize=san)
            except Exception as e:
                ck.broke("correspondence", "driver build", repr(e)[:300])
                continue
            rc, vals, err = asan.run_net(exe, ck.scratch, f"n{idx}", rows, n_in, n_out)
            ck.count("sanitizer_runs" if san else "plain_runs")
            if rc != 0:
                ck.disagree("sanitizer reports a memory error in logic_net", dict(case, compiler=cc, opt=opt), observed=err[-500:],
                            signature={"what": "sanitizer", "kind": case["kind"]})
                continue
            outs[(cc, opt)] = vals
            if ref is not None and vals != ref:
                ck.disagree("compiled logic_net differs from the model interpreter (optimisation-level dependence or UB)",
                            dict(case, compiler=cc, opt=opt), signature={"what": "opt-dependence", "kind": case["kind"]})
        if len({tuple(v) for v in outs.values()}) > 1:
            ck.disagree("result depends on compiler / optimisation level", case, signature={"what": "opt-dependence"})
    stack_exhaustion_replay(ck)
    scalar_frame_replay(ck)
    predefined_finish(ck, pending)
    return ck.finish()


def predefined_start(ck):
    """The library's own architectures at k_num = 1.  The parsed text (13k..60k statements) is compared with the proved generator
    model inside the kernel by the streaming comparison (C11_safe_emitted); the Python mirror of the interpreter is kept for
    pinpointing an offending access.  Returns the pending kernel jobs (they run while the rest of the check proceeds)."""
    from concurrent.futures import ThreadPoolExecutor
    from torchlogix import models as M
    todo = [("ClgnCifar10Mini", lambda: M.ClgnCifar10Mini(k_num=1, device="cpu"))]
    if ck.tier == "thorough":
        todo += [("ClgnMnist", lambda: M.ClgnMnist(k_num=1, device="cpu")),
                 ("ClgnCifar10Tiny", lambda: M.ClgnCifar10Tiny(k_num=1, device="cpu")),
                 ("ClgnCifar10", lambda: M.ClgnCifar10(n_bits=1, k_num=1, tau=1.0, device="cpu"))]
    ex = ThreadPoolExecutor(max_workers=4)
    jobs = []
    for name, mk in todo:
        try:
            torch.manual_seed(ck.seed)
            model = mk()
            net = compiled.build(model, 64)
            text = net.get_c_code()
            p = cparse.parse_unit(text, 64)
            n_in = int(np.prod(net.input_shape))
            n_out = net._get_output_size()
            p["sizes"][0], p["sizes"][1] = n_in, int(n_out)
            ck.case({"kind": "predefined", "name": name, "statements": len(p["body"])}, kind="predefined")
            txt = gennet.large_text(nets.extract(model), p)
            if txt is None:
                ck.notes.append(f"{name}: outside the generator model's fragment (python mirror only)")
            elif len(p["body"]) <= 30000 or ck.tier == "thorough":
                jobs.append((name, p, ex.submit(ck.coq_eval, "c11large" + name, txt, 7200)))
            cparse.exec_prog(p, [0] * n_in, 64)
        except (IndexError, KeyError) as e:
            ck.disagree("predefined architecture compiles to an unsafe program", {"name": name}, observed=str(e),
                        signature={"what": "unsafe-access", "kind": "predefined", "name": name})
        except cparse.ParseError as e:
            ck.broke("correspondence", "parse emitted C", f"{name}: {e}")
    return ex, jobs


def predefined_finish(ck, pending):
    ex, jobs = pending
    for name, p, fut in jobs:
        rc, out, err = fut.result()
        gennet.judge_large(ck, name, p, rc, out, err)
    ex.shutdown()


STACK_PROBE = r"""
import sys, threading, numpy as np, torch
from torchlogix.layers import LogicDense, GroupSum
from torchlogix.compiled_model import CompiledLogicNet
n = int(sys.argv[1])
m = torch.nn.Sequential(torch.nn.Flatten(), LogicDense(n, 16, device="cpu"), LogicDense(16, 10, device="cpu"), GroupSum(10, device="cpu"))
m.eval()
net = CompiledLogicNet(m, num_bits=64)
net.compile(opt_level=0)
x = np.random.RandomState(0).rand(3, n) > 0.5
y = net.forward(x)
with torch.no_grad():
    yt = m(torch.tensor(x, dtype=torch.float32))
res = {}
threading.stack_size(256 * 1024)
t = threading.Thread(target=lambda: res.update(y=net.forward(x)))
t.start(); t.join()
print("RESULT", tuple(y.shape), bool(torch.equal(y.float(), yt)), bool("y" in res and torch.equal(res["y"], y)))
"""


def stack_exhaustion_replay(ck):
    """F27 (repaired): the intermediate buffers of logic_net used to be automatic arrays, so a network whose buffers exceeded the thread's
    stack limit killed the process.  A child process runs a network with 1 100 000 inputs (8.8 MB of buffers at 64 bits, more than the
    default 8 MiB stack) - also from a thread with a 256 KiB stack - and compares with the eval-mode model."""
    import subprocess
    import sys
    env = dict(os.environ, OMP_NUM_THREADS="1")
    for n in (100_000, 1_100_000):
        ck.case({"kind": "stack", "inputs": n, "bytes_of_buffers": n * 8}, kind="stack-replay")
        p = subprocess.run([sys.executable, "-W", "ignore", "-c", STACK_PROBE, str(n)], capture_output=True, text=True, env=env, timeout=900)
        if p.returncode != 0 or "RESULT (3, 10) True True" not in p.stdout:
            ck.disagree("a compiled network with large intermediate buffers cannot be run (process killed or wrong result)",
                        {"inputs": n, "bytes_of_buffers": n * 8, "returncode": p.returncode}, observed=(p.stdout + p.stderr)[-300:],
                        signature={"what": "stack-exhaustion", "inputs": n})


SCALAR_PROBE = r"""
import sys, threading, numpy as np, torch
from torchlogix.layers import LogicConv2d, GroupSum
from torchlogix.compiled_model import CompiledLogicNet
opt, kernels = int(sys.argv[1]), int(sys.argv[2])
torch.manual_seed(0)
conv = LogicConv2d(in_dim=28, device="cpu", channels=1, num_kernels=kernels, tree_depth=3, receptive_field_size=5, weight_init="random")
m = torch.nn.Sequential(conv, torch.nn.Flatten(), GroupSum(kernels, device="cpu"))
m.eval()
net = CompiledLogicNet(m, num_bits=64)
net.compile(opt_level=opt)
x = np.random.RandomState(0).rand(2, 1, 28, 28) > 0.5
with torch.no_grad():
    yt = m(torch.tensor(x, dtype=torch.float32))
res = {}
threading.stack_size(512 * 1024)
t = threading.Thread(target=lambda: res.update(y=net.forward(x)))
t.start(); t.join()
print("RESULT", bool("y" in res and torch.equal(res["y"].float(), yt)))
"""


def scalar_frame_replay(ck):
    """Recorded finding F36: the convolution emitter gives every tree gate its own `const T conv_..._g<i>` scalar; at opt_level=0 each
    scalar gets a stack slot, so the frame of logic_net grows with kernels x positions x gates although the declared buffers are
    small; from -O1 the scalars live in registers.  Replayed in a child process from a thread with a 512 KiB stack: 10 kernels
    (645 KB of scalars) at -O0 and at -O1, and 2 kernels at -O0 as the control."""
    import subprocess
    import sys
    env = dict(os.environ, OMP_NUM_THREADS="1")
    for opt, kernels, must_work in ((0, 2, True), (1, 10, True), (0, 10, False)):
        ck.case({"kind": "scalar-frame", "opt": opt, "kernels": kernels, "scalars_bytes": kernels * 576 * 14 * 8}, kind="stack-replay")
        p = subprocess.run([sys.executable, "-W", "ignore", "-c", SCALAR_PROBE, str(opt), str(kernels)], capture_output=True, text=True,
                           env=env, timeout=900)
        ok = p.returncode == 0 and "RESULT True" in p.stdout
        if must_work and not ok:
            ck.disagree("a small compiled convolution cannot be run from a thread with a 512 KiB stack",
                        {"opt": opt, "kernels": kernels, "returncode": p.returncode}, observed=(p.stdout + p.stderr)[-300:],
                        signature={"what": "scalar-frame-control", "opt": opt})
        if not must_work and p.returncode < 0:
            ck.disagree("the same model and input crash at opt_level=0 and work at opt_level=1 (stack frame of the per-gate scalars)",
                        {"opt": opt, "kernels": kernels, "signal": -p.returncode, "scalars_bytes": kernels * 576 * 14 * 8},
                        signature={"what": "scalar-frame-O0"})


def replay(ck, path):
    return run(ck)
