"""setup: regenerate every translated Coq file from /repo and build the whole development."""
import importlib
import os
import subprocess
import sys

from harness.common import COQ, GEN, BuildLock, ensure_makefile, forbidden_scan
from harness import gens


def main():
    os.makedirs(GEN, exist_ok=True)
    failed = []
    for name, fn in gens.ALL.items():
        path = os.path.join(GEN, name + ".v")
        try:
            txt = fn()
        except Exception as e:
            failed.append((name, repr(e)))
            # keep the build going with a stub only if no previous file exists
            continue
        old = open(path).read() if os.path.exists(path) else None
        if old != txt:
            open(path, "w").write(txt)
    bad = forbidden_scan()
    if bad:
        print("forbidden constructs:", bad)
        sys.exit(2)
    with BuildLock():
        ensure_makefile()
        p = subprocess.run(["timeout", "3000", "make", "-j16"], cwd=COQ, capture_output=True, text=True)
    if p.returncode != 0:
        print(p.stdout[-3000:])
        print(p.stderr[-3000:])
    for f in failed:
        print("translator failed:", f)
    sys.exit(0 if p.returncode == 0 and not failed else 1)


if __name__ == "__main__":
    main()
