"""C07 — Walsh parametrisation: coefficients, reported gate id and eval output agree."""
import itertools
from fractions import Fraction

import numpy as np
import torch

from harness import coqio, nets, compiled, protocols
from harness.common import Check
from translate import ops as t_ops

THEOREMS = ["C07_eval_sign", "C07_gate_id", "C07_conv_eval", "C07_consumers", "C07_consumers_wired", "C07_builtin", "C07_soft"]
TRUSTED = [
    "Coq 8.16.1 kernel/coqc; the Q-valued theorems are closed under the global context; C07_soft (over R) depends on the standard-library "
    "axioms of Reals (sig_forall_dec, sig_not_dec, functional_extensionality_dep) and Classical_Prop.classic",
    "translator translate/ops.py gen_walsh (coefficient table, get_gate_ids literals, eval thresholds of dense and conv layers, "
    "_walsh_gate_ids of the compiler and its two call sites); fail-closed",
    "coefficient vectors are chosen on a dyadic grid where binary32 evaluation of the form is exact in any association order, so the "
    "rational model and the float implementation must agree exactly; for other floats the sum order of torch is not modelled",
]


def vectors(ck):
    """All 3^4 sign/zero patterns of the corner values, at several magnitudes (exact dyadic coefficients)."""
    mags = [0, -20, 20, -7, 5] if ck.tier == "quick" else [0, -20, 20, -7, 5, -1, 1, 10, -12, 3]
    out = []
    for e in mags:
        m = Fraction(2) ** e
        for pat in itertools.product((-1, 0, 1), repeat=4):
            v00, v01, v10, v11 = [p * m for p in pat]
            w0 = (v00 + v01 + v10 + v11) / 4
            w1 = (-v00 - v01 + v10 + v11) / 4
            w2 = (-v00 + v01 - v10 + v11) / 4
            w3 = (v00 - v01 - v10 + v11) / 4
            out.append(((w0, w1, w2, w3), pat, e))
    return out


def expected_gate(pat):
    g = 0
    for i, p in enumerate(pat):
        if p > 0:
            g |= 1 << (3 - i)
    return g


def run(ck: Check):
    from torchlogix.layers import LogicDense, LogicConv2d, GroupSum
    from torchlogix.functional import WALSH_COEFFICIENTS
    ck.trusted = TRUSTED
    ck.rule = ("all 81 sign/zero patterns of the four corner values at 5 (quick) / 10 (thorough) magnitudes 2^-20..2^20, realised by exact "
               "dyadic coefficients, in dense and conv Walsh layers: eval output at the four corners, get_gate_ids(), the compiled "
               "library, and the Coq model evaluated in the kernel; plus the 16 built-in vectors. Non-trivial: at least one non-zero "
               "corner. Distinct = canonical JSON of (coefficients, layer kind).")
    ck.translate("Walsh", t_ops.gen_walsh)
    ck.prove("Props/C07", THEOREMS)
    vs = vectors(ck)
    n = len(vs)
    corners = [[0, 0], [0, 1], [1, 0], [1, 1]]
    # ---- dense layer holding all vectors
    d = LogicDense(2, n, device="cpu", parametrization="walsh", weight_init="random")
    d.indices = (torch.zeros(n, dtype=torch.int64), torch.ones(n, dtype=torch.int64))
    with torch.no_grad():
        d.weight.copy_(torch.tensor([[float(x) for x in w] for w, _, _ in vs]))
    d.eval()
    with torch.no_grad():
        ye = d(torch.tensor(corners, dtype=torch.float32)).T.tolist()   # [neuron][corner]
    ids = d.get_gate_ids().tolist()
    for i, (w, pat, e) in enumerate(vs):
        case = {"layer": "dense", "w": [str(x) for x in w], "corner_signs": pat, "exp2": e}
        ck.case(case, nontrivial=any(pat), kind="dense")
        exp = [1.0 if p > 0 else 0.0 for p in pat]
        if ye[i] != exp:
            ck.disagree("dense Walsh eval output is not the sign pattern of the form", case, expected=exp, observed=ye[i],
                        signature={"layer": "dense", "what": "eval"})
        if ids[i] != expected_gate(pat):
            ck.disagree("reported gate id is not the id of the function the neuron computes", case, expected=expected_gate(pat),
                        observed=ids[i], signature={"layer": "dense", "what": "gate-id"})
    # soft training output thresholded at one half
    d.train()
    for tau in (0.3, 1.0, 4.0):
        d.temperature = tau
        with torch.no_grad():
            ys = d(torch.tensor(corners, dtype=torch.float32)).T
        for i, (w, pat, e) in enumerate(vs):
            got = [float(v > 0.5) for v in ys[i]]
            exp = [1.0 if p > 0 else 0.0 for p in pat]
            if got != exp:
                # binary32: the logistic of a non-zero argument below 2^-24 in magnitude rounds to exactly 0.5 (finding F19b); any
                # other disagreement is a violation
                tiny = all(gv == ev or (float(ys[i][ci]) == 0.5 and abs(float(Fraction(2) ** e) / tau) < 2.0 ** -22)
                           for ci, (gv, ev) in enumerate(zip(got, exp)))
                ck.disagree("soft Walsh output thresholded at 1/2 differs from the eval output",
                            {"w": [str(x) for x in w], "tau": tau}, expected=exp, observed=got,
                            signature={"layer": "dense", "what": "soft", "float_resolution": bool(tiny)})
        ck.count("soft_threshold_checks", len(vs))
        # ... and numerically the logistic of form / CURRENT temperature (binary32 evaluation: 1e-5 absolute)
        worst = 0.0
        for i, (w, pat, e) in enumerate(vs):
            if abs(e) > 10:
                continue
            for ci, (a, b) in enumerate(corners):
                A, B = 2 * a - 1, 2 * b - 1
                form = float(w[0] + w[1] * A + w[2] * B + w[3] * A * B)
                want = 1.0 / (1.0 + np.exp(-form / tau))
                worst = max(worst, abs(float(ys[i][ci]) - want))
                if abs(float(ys[i][ci]) - want) > 1e-5:
                    ck.disagree("dense Walsh training output is not the logistic of form / temperature",
                                {"w": [str(x) for x in w], "tau": tau, "corner": [a, b]}, expected=want, observed=float(ys[i][ci]),
                                signature={"layer": "dense", "what": "soft-value"})
                    break
        ck.count("soft_value_checks", len(vs))
    # replay of the recorded finding F19b: form/temperature so small that the binary32 logistic is exactly one half
    r = LogicDense(2, 1, device="cpu", parametrization="walsh", weight_init="random")
    r.indices = (torch.zeros(1, dtype=torch.int64), torch.ones(1, dtype=torch.int64))
    with torch.no_grad():
        r.weight.copy_(torch.tensor([[1e-8, 0.0, 0.0, 0.0]]))
    r.train()
    r.temperature = 1.0
    with torch.no_grad():
        ysr = r(torch.tensor(corners, dtype=torch.float32)).reshape(-1).tolist()
    r.eval()
    with torch.no_grad():
        yer = r(torch.tensor(corners, dtype=torch.float32)).reshape(-1).tolist()
    ck.case({"w": [1e-8, 0, 0, 0], "tau": 1.0, "finding": "F19b"}, kind="known-finding-replay")
    if [float(v > 0.5) for v in ysr] != yer:
        ck.disagree("soft Walsh output thresholded at 1/2 differs from the eval output", {"w": [1e-8, 0, 0, 0], "tau": 1.0, "soft": ysr},
                    expected=yer, observed=[float(v > 0.5) for v in ysr],
                    signature={"layer": "dense", "what": "soft", "float_resolution": all(v == 0.5 for v in ysr)})
    # hard sampling thresholds the form itself: equal to eval at every magnitude and temperature (F19)
    d.forward_sampling = "hard"
    for tau in (1.0, 1e8, 1e-3):
        d.temperature = tau
        with torch.no_grad():
            yh = d(torch.tensor(corners, dtype=torch.float32)).T
        for i, (w, pat, e) in enumerate(vs):
            exp = [1.0 if p > 0 else 0.0 for p in pat]
            if [float(v) for v in yh[i]] != exp:
                ck.disagree("hard Walsh training output differs from the eval output", {"w": [str(x) for x in w], "tau": tau},
                            expected=exp, observed=[float(v) for v in yh[i]], signature={"layer": "dense", "what": "hard-vs-eval"})
                break
        ck.count("hard_vs_eval_checks", len(vs))
    d.forward_sampling = "soft"
    # compiled dense: groups of one neuron -> count = output bit
    for W in ((8, 64) if ck.tier == "quick" else (8, 16, 32, 64)):
        m = torch.nn.Sequential(d, GroupSum(n, device="cpu"))
        d.eval()
        net = compiled.build(m, W)
        compiled.compile_net(net)
        got = compiled.forward(net, corners)
        for i, (w, pat, e) in enumerate(vs):
            exp = [1 if p > 0 else 0 for p in pat]
            if [got[c][i] for c in range(4)] != exp:
                ck.disagree("compiled Walsh dense neuron differs from the sign pattern", {"w": [str(x) for x in w], "W": W},
                            expected=exp, observed=[got[c][i] for c in range(4)], signature={"layer": "dense", "what": "compiled"})
                break
        ck.count("compiled_dense_neurons", n)
    # ---- conv layers: one kernel per vector, depth 1, leaves = (input0, input1) combined by the vector, root = vector too
    chunk = 27
    for start in range(0, n, chunk):
        sub = vs[start:start + chunk]
        K = len(sub)
        # a 2x2 single-channel image with rf 2: both leaves read pixel (0,0) as a and pixel (0,1) as b
        conv = LogicConv2d(in_dim=(2, 2), device="cpu", channels=1, num_kernels=K, tree_depth=1, receptive_field_size=2,
                           parametrization="walsh", weight_init="random")
        pa = torch.tensor([[[0, 0, 0], [0, 0, 0]]] * K)
        pb = torch.tensor([[[0, 1, 0], [0, 1, 0]]] * K)
        conv.kernel_pairs = (pa, pb)
        conv.indices = conv.get_indices_from_kernel_pairs(conv.kernel_pairs)
        wt = torch.tensor([[float(x) for x in w] for w, _, _ in sub])
        ident_a = torch.tensor([WALSH_COEFFICIENTS[10]] * K, dtype=torch.float32)   # id 10 of the Walsh table = pass-through A
        with torch.no_grad():
            conv.tree_weights[0][0].copy_(wt)
            conv.tree_weights[0][1].copy_(wt)
            conv.tree_weights[1][0].copy_(ident_a)
        conv.eval()
        x = torch.zeros(4, 1, 2, 2)
        for ci, (a, b) in enumerate(corners):
            x[ci, 0, 0, 0] = a
            x[ci, 0, 0, 1] = b
        with torch.no_grad():
            yc = conv(x).reshape(4, K).T.tolist()
        m = torch.nn.Sequential(conv, torch.nn.Flatten(), GroupSum(K, device="cpu"))
        net = compiled.build(m, 16)
        compiled.compile_net(net)
        gc = compiled.forward(net, x.bool().tolist())
        for i, (w, pat, e) in enumerate(sub):
            case = {"layer": "conv", "w": [str(x_) for x_ in w], "corner_signs": pat, "exp2": e}
            ck.case(case, nontrivial=any(pat), kind="conv")
            exp = [1.0 if p > 0 else 0.0 for p in pat]
            if yc[i] != exp:
                ck.disagree("conv Walsh eval output is not the sign pattern of the form", case, expected=exp, observed=yc[i],
                            signature={"layer": "conv", "what": "eval"})
            if [gc[c][i] for c in range(4)] != [int(v) for v in exp]:
                ck.disagree("compiled Walsh conv kernel differs from the sign pattern", case, expected=exp,
                            observed=[gc[c][i] for c in range(4)], signature={"layer": "conv", "what": "compiled"})
    # ---- conv, training mode, temperature assigned AFTER construction: depth-0 trees, output = logistic(form / temperature)
    sub = [v for v in vs if abs(v[2]) <= 7][:54]
    K = len(sub)
    conv0 = LogicConv2d(in_dim=(2, 2), device="cpu", channels=1, num_kernels=K, tree_depth=0, receptive_field_size=2,
                        parametrization="walsh", weight_init="random", temperature=1.0)
    conv0.kernel_pairs = (torch.tensor([[[0, 0, 0]]] * K), torch.tensor([[[0, 1, 0]]] * K))
    conv0.indices = conv0.get_indices_from_kernel_pairs(conv0.kernel_pairs)
    with torch.no_grad():
        conv0.tree_weights[0][0].copy_(torch.tensor([[float(x) for x in w] for w, _, _ in sub]))
    x0 = torch.zeros(4, 1, 2, 2)
    for ci, (a, b) in enumerate(corners):
        x0[ci, 0, 0, 0] = a
        x0[ci, 0, 0, 1] = b
    conv0.train()
    with torch.no_grad():
        conv0(x0)                      # one forward at the construction-time temperature first
    for tau in (2.0, 0.25, 0.7):
        conv0.temperature = tau
        with torch.no_grad():
            yc0 = conv0(x0).reshape(4, K).T
        for i, (w, pat, e) in enumerate(sub):
            for ci, (a, b) in enumerate(corners):
                A, B = 2 * a - 1, 2 * b - 1
                form = float(w[0] + w[1] * A + w[2] * B + w[3] * A * B)
                want = 1.0 / (1.0 + np.exp(-form / tau))
                if abs(float(yc0[i][ci]) - want) > 1e-5:
                    ck.disagree("conv Walsh training output is not the logistic of form / current temperature",
                                {"w": [str(x) for x in w], "tau": tau, "corner": [a, b], "temperature_set_after_construction": True},
                                expected=want, observed=float(yc0[i][ci]), signature={"layer": "conv", "what": "soft-value"})
                    break
            else:
                continue
            break
        ck.count("soft_value_checks", K)
    # ---- zero padding: the cells outside the image are Boolean 0 (A = -1 in the +-1 encoding), not the 0 of the +-1 scale.  A padded Walsh
    # convolution in eval mode against the reference circuit built from its own coefficients, every input of a 3x3 image, and compiled
    for pad, stride, depth in ((1, 1, 1), (2, 2, 2), (1, 2, 1)):
        torch.manual_seed(ck.seed + 17 + pad)
        pm = nets.make_custom(ck.rng, (1, 3, 3), [("conv", dict(K=2, depth=depth, rf=2, pad=pad, stride=stride)), ("flatten",)], param="walsh")
        pspec = nets.extract(pm)
        prow = nets.all_rows(9)
        ck.case({"layer": "conv", "padding": pad, "stride": stride, "depth": depth, "padded": True}, nontrivial=True, kind="conv-padded")
        pm.eval()
        with torch.no_grad():
            pgot = pm(torch.tensor(prow, dtype=torch.float32).reshape(-1, 1, 3, 3)).int().tolist()
        pexp = [[int(v) for v in nets.eval_spec(pspec, r)] for r in prow]
        if pgot != pexp:
            pj = next(i for i in range(len(prow)) if pgot[i] != pexp[i])
            ck.disagree("a zero-padded Walsh convolution in eval mode differs from the Boolean function given by the signs of its form (padding cells are Boolean 0)",
                        {"padding": pad, "stride": stride, "depth": depth, "row": prow[pj], "differing_rows": sum(1 for a_, b_ in zip(pgot, pexp) if a_ != b_)},
                        expected=pexp[pj], observed=pgot[pj], signature={"layer": "conv", "what": "eval-padded"})
    # ---- a model that MIXES parametrisations: every consumer must decide per layer how to discretise (a raw layer in front of a Walsh one,
    # and the other way round); compiled vs eval on every input
    for order in ("raw-then-walsh", "walsh-then-raw"):
        for kindm in ("conv", "dense"):
            torch.manual_seed(ck.seed + 19)
            p1, p2 = ("raw", "walsh") if order == "raw-then-walsh" else ("walsh", "raw")
            if kindm == "conv":
                mm = torch.nn.Sequential(
                    LogicConv2d(in_dim=(3, 3), device="cpu", channels=1, num_kernels=2, tree_depth=1, receptive_field_size=2, parametrization=p1, weight_init="random"),
                    LogicConv2d(in_dim=(2, 2), device="cpu", channels=2, num_kernels=3, tree_depth=1, receptive_field_size=2, parametrization=p2, weight_init="random"),
                    torch.nn.Flatten(), GroupSum(3, device="cpu"))
                mrows, mshape = nets.all_rows(9), (1, 3, 3)
            else:
                from torchlogix.layers import LogicDense as _LDm
                mm = torch.nn.Sequential(_LDm(6, 12, device="cpu", parametrization=p1, weight_init="random"),
                                         _LDm(12, 9, device="cpu", parametrization=p2, weight_init="random"), GroupSum(3, device="cpu"))
                mrows, mshape = nets.all_rows(6), (6,)
            ck.case({"layer": kindm, "mixed": order}, nontrivial=True, kind="mixed-parametrisation")
            mm.eval()
            with torch.no_grad():
                mexp = [[int(round(v)) for v in r] for r in mm(torch.tensor(mrows, dtype=torch.float32).reshape(-1, *mshape)).tolist()]
            try:
                mnet = compiled.build(mm, 16)
                compiled.compile_net(mnet)
                mgot = [[int(v) for v in r] for r in compiled.forward(mnet, np.array(mrows, dtype=bool).reshape(-1, *mshape).tolist())]
            except Exception as e:
                ck.disagree("a model mixing raw and Walsh layers cannot be compiled", {"layer": kindm, "mixed": order}, observed=repr(e)[:200],
                            signature={"layer": kindm, "what": "compiled-mixed", "kind": "error"})
                continue
            if mgot != mexp:
                mj = next(i for i in range(len(mrows)) if mgot[i] != mexp[i])
                ck.disagree("a model mixing raw and Walsh layers compiles to a different function than its eval forward (the discretisation was not chosen per layer)",
                            {"layer": kindm, "mixed": order, "row": mrows[mj], "differing_rows": sum(1 for a_, b_ in zip(mgot, mexp) if a_ != b_)},
                            expected=mexp[mj], observed=mgot[mj], signature={"layer": kindm, "what": "compiled-mixed"})
    # ---- half-precision parameters (F20): the compiler, the eval forward and a float32 copy of the same stored coefficients agree
    for dt in (torch.bfloat16, torch.float16):
        torch.manual_seed(ck.seed + 11)
        convh = LogicConv2d(in_dim=(2, 2), device="cpu", channels=1, num_kernels=24, tree_depth=1, receptive_field_size=2,
                            parametrization="walsh", weight_init="random")
        with torch.no_grad():
            # cancellation-prone coefficients: w2 ~ -w0, |w1| small
            for level in convh.tree_weights:
                for w in level:
                    base = torch.randn(w.shape[0]) * 8
                    w.copy_(torch.stack([base, torch.randn(w.shape[0]) * 0.03, -base, torch.randn(w.shape[0]) * 0.01], dim=1))
            convh.tree_weights[0][0][0] = torch.tensor([1.0, 2.0 ** -8, -1.0, 0.0])
            convh.tree_weights[0][0][1] = torch.tensor([2048.0, 1.0, -2048.0, 0.0])
        convh = convh.to(dt)
        convh.eval()
        mh = torch.nn.Sequential(convh, torch.nn.Flatten(), GroupSum(24, device="cpu"))
        xs = torch.tensor(nets.all_rows(4), dtype=torch.float32).reshape(16, 1, 2, 2)
        ck.case({"layer": "conv", "dtype": str(dt), "half_precision": True}, nontrivial=True, kind="half-precision")
        try:
            with torch.no_grad():
                yeh = mh(xs.to(dt)).float().round().int().tolist()
            neth = compiled.build(mh, 16)
            compiled.compile_net(neth)
            ych = [[int(v) for v in r] for r in compiled.forward(neth, xs.bool().tolist())]
        except Exception as e:
            ck.count("half_precision_rejected")
            continue
        ck.count("half_precision_checks")
        if ych != yeh:
            bad = next(i for i in range(16) if ych[i] != yeh[i])
            ck.disagree("a half-precision Walsh convolution compiles to a different function than its eval forward",
                        {"dtype": str(dt), "row": nets.all_rows(4)[bad]}, expected=yeh[bad], observed=ych[bad],
                        signature={"layer": "conv", "what": "compiled-half"})
    # ---- half-precision DENSE Walsh layers: reported gate id = truth table of the eval forward = what the compiler uses.  Vectors in
    # which one coefficient nearly cancels the others at a corner (the exact form is 0 or a few ulps): accumulating the form term by
    # term in 16 bits gives another sign than the forward pass
    from torchlogix.layers import LogicDense as _LD
    for dt in (torch.bfloat16, torch.float16):
        torch.manual_seed(ck.seed + 13)
        n_h = 96
        dh = _LD(2, n_h, device="cpu", parametrization="walsh", weight_init="random")
        dh.indices = (torch.zeros(n_h, dtype=torch.long), torch.ones(n_h, dtype=torch.long))
        with torch.no_grad():
            h_big = 2048.0 if dt == torch.float16 else 256.0
            h_sgn = torch.where(torch.rand(n_h) > 0.5, 1.0, -1.0)
            h_w = torch.stack([-h_big * h_sgn, -torch.ones(n_h) * h_sgn, -torch.ones(n_h) * h_sgn, (h_big + 2) * h_sgn], dim=1)
            # rotate which corner cancels: multiply coefficient columns by the corner's +-1 pattern
            for h_i in range(n_h):
                h_a, h_b = [(-1, -1), (-1, 1), (1, -1), (1, 1)][h_i % 4]
                h_w[h_i] = h_w[h_i] * torch.tensor([1.0, h_a, h_b, h_a * h_b])
            h_w[n_h // 2:] += torch.randn(n_h - n_h // 2, 4) * 0.5
            dh.weight.copy_(h_w)
        dh = dh.to(dt)
        dh.eval()
        h_xs = torch.tensor(nets.all_rows(2), dtype=torch.float32)
        ck.case({"layer": "dense", "dtype": str(dt), "half_precision": True}, nontrivial=True, kind="half-precision")
        try:
            with torch.no_grad():
                h_ye = dh(h_xs.to(dt)).float().round().int()                 # (4, n): rows AB = 00, 01, 10, 11
            h_tab = (8 * h_ye[0] + 4 * h_ye[1] + 2 * h_ye[2] + h_ye[3]).tolist()
            h_rep = [int(v) for v in dh.get_gate_ids().tolist()]
        except Exception as e:
            ck.count("half_precision_rejected")
            continue
        ck.count("half_precision_checks")
        h_badn = [h_i for h_i in range(n_h) if h_rep[h_i] != h_tab[h_i]]
        if h_badn:
            h_i = h_badn[0]
            ck.disagree("a half-precision Walsh dense layer reports another gate id than the function its eval forward computes",
                        {"dtype": str(dt), "coefficients": [float(v) for v in dh.weight[h_i].float()], "neurons": len(h_badn)}, expected=h_tab[h_i],
                        observed=h_rep[h_i], signature={"layer": "dense", "what": "gate-id-half"})
        try:
            h_mh = torch.nn.Sequential(dh, GroupSum(n_h, device="cpu"))
            h_neth = compiled.build(h_mh, 8)
            compiled.compile_net(h_neth)
            h_ych = [[int(v) for v in r] for r in compiled.forward(h_neth, h_xs.bool().tolist())]
            with torch.no_grad():
                h_yeh = h_mh(h_xs.to(dt)).float().round().int().tolist()
        except Exception as e:
            ck.count("half_precision_rejected")
            continue
        if h_ych != h_yeh:
            h_bad = next(h_i for h_i in range(4) if h_ych[h_i] != h_yeh[h_i])
            ck.disagree("a half-precision Walsh dense layer compiles to a different function than its eval forward",
                        {"dtype": str(dt), "row": nets.all_rows(2)[h_bad]}, expected=h_yeh[h_bad], observed=h_ych[h_bad],
                        signature={"layer": "dense", "what": "compiled-half"})
    # ---- parameter-update protocols (reported id / eval / compiled follow the CURRENT coefficients)
    protocols.dense_protocol(ck, "walsh", "")
    protocols.conv_protocol(ck, "walsh", "")
    # ---- model in the kernel
    for start in range(0, n, 135):
        sub = vs[start:start + 135]
        txt = ("From Coq Require Import QArith List Bool. Import ListNotations.\nFrom TLX Require Import Model.Walsh.\n"
               "Definition ws : list wvec := [" + "; ".join("(" + ", ".join(coqio.qlit(x) for x in w) + ")" for w, _, _ in sub) + "].\n"
               "Eval vm_compute in map (fun w => (walsh_gate_id w, compiler_gate_id w, [walsh_eval w false false; walsh_eval w false true; "
               "walsh_eval w true false; walsh_eval w true true], [walsh_eval_conv w false false; walsh_eval_conv w false true; "
               "walsh_eval_conv w true false; walsh_eval_conv w true true])) ws.\n")
        rc, out, err = ck.coq_eval("c07m", txt)
        if rc != 0:
            ck.broke("correspondence", "kernel evaluation of Model/Walsh", err[-500:])
            continue
        for off, mv in enumerate(coqio.parse_evals(out)[0]):
            i = start + off
            gid, cid, ev, evc = mv
            ck.count("model_vs_impl_vectors")
            if gid != ids[i] or [float(b) for b in ev] != ye[i]:
                ck.broke("correspondence", "Model/Walsh vs LogicDense", f"w={vs[i][0]}: model id {gid} eval {ev}; implementation id {ids[i]} eval {ye[i]}")
    # ---- built-in table: exact +-1 corners, 16 distinct gates
    seen = set()
    for i, w in WALSH_COEFFICIENTS.items():
        fw = [Fraction(x) for x in w]
        vals = [fw[0] + fw[1] * A + fw[2] * B + fw[3] * A * B for A in (-1, 1) for B in (-1, 1)]
        ck.case({"layer": "builtin", "index": i, "w": [str(x) for x in fw]}, kind="builtin")
        if any(v not in (1, -1) for v in vals):
            ck.disagree("built-in Walsh vector is not an exact +-1 expansion", {"index": i, "corner_values": [str(v) for v in vals]},
                        signature={"what": "builtin", "index": i})
        seen.add(nets.walsh_gate(fw))
    if seen != set(range(16)):
        ck.disagree("built-in Walsh vectors do not cover the 16 gates exactly once", {"gates": sorted(x for x in seen if x is not None)},
                    signature={"what": "builtin-cover"})
    return ck.finish()


def replay(ck, path):
    return run(ck)
