"""Standalone sanitizer driver: the emitted translation unit + a generated main() that reads a Boolean
batch from a file, calls apply_logic_net / logic_net on exactly-sized heap arrays and prints the result.
No Python runs under the sanitizer."""
import os
import subprocess

from harness.cparse import DTYPE

MAIN_APPLY = r"""
#include <stdio.h>
int main(int argc, char **argv) {
    FILE *f = fopen(argv[1], "r");
    unsigned long n_words, in_size, W, k;
    if (fscanf(f, "%lu %lu %lu %lu", &n_words, &in_size, &W, &k) != 4) return 2;
    size_t nin = n_words * W * in_size, nout = n_words * W * k;
    bool *inp = malloc(nin ? nin : 1);
    int *out = malloc((nout ? nout : 1) * sizeof(int));
    for (size_t i = 0; i < nin; ++i) { int v; if (fscanf(f, "%d", &v) != 1) return 3; inp[i] = v; }
    apply_logic_net(inp, out, n_words);
    for (size_t i = 0; i < nout; ++i) printf("%d\n", out[i]);
    free(inp); free(out); fclose(f);
    return 0;
}
"""

MAIN_NET = r"""
#include <stdio.h>
int main(int argc, char **argv) {
    FILE *f = fopen(argv[1], "r");
    unsigned long n_in, n_out, n_rows;
    if (fscanf(f, "%lu %lu %lu", &n_in, &n_out, &n_rows) != 3) return 2;
    for (size_t r = 0; r < n_rows; ++r) {
        TYPE *inp = malloc((n_in ? n_in : 1) * sizeof(TYPE));
        TYPE *out = malloc((n_out ? n_out : 1) * sizeof(TYPE));
        for (size_t i = 0; i < n_in; ++i) { long long v; if (fscanf(f, "%lld", &v) != 1) return 3; inp[i] = (TYPE) v; }
        logic_net(inp, out);
        for (size_t i = 0; i < n_out; ++i) printf("%lld\n", (long long) out[i]);
        free(inp); free(out);
    }
    fclose(f);
    return 0;
}
"""

SAN = ["-fsanitize=address", "-fsanitize=bounds,object-size,null,alignment,vla-bound,pointer-overflow,shift,signed-integer-overflow",
       "-fno-sanitize-recover=all", "-fno-omit-frame-pointer", "-g"]


def build(text, scratch, name, kind, W, compiler="gcc", opt=0, sanitize=True):
    src = text + "\n" + (MAIN_APPLY if kind == "apply" else MAIN_NET.replace("TYPE", DTYPE[W]))
    c = os.path.join(scratch, name + ".c")
    exe = os.path.join(scratch, name + ".exe")
    open(c, "w").write(src)
    flags = SAN if sanitize else []
    p = subprocess.run([compiler, f"-O{opt}", *flags, "-o", exe, c], capture_output=True, text=True)
    if p.returncode != 0:
        raise RuntimeError("driver build failed: " + p.stderr[-500:])
    return exe


def run_apply(exe, scratch, name, rows_flat, n_words, in_size, W, k, timeout=60):
    inp = os.path.join(scratch, name + ".in")
    with open(inp, "w") as f:
        f.write(f"{n_words} {in_size} {W} {k}\n")
        f.write(" ".join(str(int(b)) for b in rows_flat))
    env = dict(os.environ, ASAN_OPTIONS="detect_leaks=1:abort_on_error=0:exitcode=66", UBSAN_OPTIONS="halt_on_error=1")
    p = subprocess.run([exe, inp], capture_output=True, text=True, timeout=timeout, env=env)
    return p.returncode, [int(x) for x in p.stdout.split()] if p.returncode == 0 else None, p.stderr[-1500:]


def run_net(exe, scratch, name, rows_words, n_in, n_out, timeout=60):
    inp = os.path.join(scratch, name + ".in")
    with open(inp, "w") as f:
        f.write(f"{n_in} {n_out} {len(rows_words)}\n")
        for r in rows_words:
            f.write(" ".join(str(int(v)) for v in r) + "\n")
    env = dict(os.environ, ASAN_OPTIONS="detect_leaks=1:abort_on_error=0:exitcode=66", UBSAN_OPTIONS="halt_on_error=1")
    p = subprocess.run([exe, inp], capture_output=True, text=True, timeout=timeout, env=env)
    vals = [int(x) for x in p.stdout.split()] if p.returncode == 0 else None
    return p.returncode, vals, p.stderr[-1500:]
