"""Driving the real implementation: CompiledLogicNet text, compilation, forward, raw logic_net calls."""
import contextlib
import ctypes
import io
import os

import numpy as np
import torch

import torchlogix.compiled_model as CM

NP = {8: np.int8, 16: np.int16, 32: np.int32, 64: np.int64}


def quiet(fn, *a, **kw):
    buf = io.StringIO()
    with contextlib.redirect_stdout(buf):
        return fn(*a, **kw)


def build(model, W, compiler="gcc"):
    return quiet(CM.CompiledLogicNet, model, num_bits=W, cpu_compiler=compiler)


def compile_net(net, opt=1, save=None):
    # compile() lets gcc write to the inherited stderr/stdout; silence at fd level
    devnull = os.open(os.devnull, os.O_WRONLY)
    so, se = os.dup(1), os.dup(2)
    try:
        os.dup2(devnull, 1)
        os.dup2(devnull, 2)
        quiet(net.compile, opt_level=opt, save_lib_path=save)
    finally:
        os.dup2(so, 1)
        os.dup2(se, 2)
        os.close(so); os.close(se); os.close(devnull)


def forward(net, rows):
    x = np.array(rows, dtype=bool)
    return quiet(net.forward, x).tolist()


def compile_text(text, path_so, compiler="gcc", opt=1, extra=()):
    import subprocess
    cpath = path_so[:-3] + ".c"
    open(cpath, "w").write(text)
    p = subprocess.run([compiler, "-shared", "-fPIC", f"-O{opt}", *extra, "-o", path_so, cpath],
                       capture_output=True, text=True)
    if p.returncode != 0:
        raise RuntimeError("compiler failed: " + p.stderr[-400:])
    return ctypes.CDLL(path_so)


def call_logic_net(lib, W, inp_words, n_out):
    x = np.array(inp_words, dtype=NP[W])
    out = np.zeros(n_out, dtype=NP[W])
    lib.logic_net(x.ctypes.data_as(ctypes.c_void_p), out.ctypes.data_as(ctypes.c_void_p))
    return out.tolist()


def call_apply(lib, rows_flat_bool, n_words, W, k):
    x = np.array(rows_flat_bool, dtype=np.bool_)
    out = np.zeros(n_words * W * k, dtype=np.int32)
    lib.apply_logic_net(x.ctypes.data_as(ctypes.c_void_p), out.ctypes.data_as(ctypes.c_void_p), ctypes.c_size_t(n_words))
    return out.tolist()


def torch_eval(model, rows):
    model.eval()
    with torch.no_grad():
        return model(torch.tensor(rows, dtype=torch.float32))


def forward_variants(net, rows, shape=None):
    """The same Boolean batch handed over in other containers / memory layouts: torch.BoolTensor, Fortran-ordered numpy,
    a non-contiguous numpy view, a read-only array.  Returns {variant: list of rows | exception}."""
    x = np.array(rows, dtype=bool)
    if shape is not None:
        x = x.reshape(len(rows), *shape)
    out = {}
    variants = {
        "torch_bool": lambda: torch.tensor(x),
        "fortran": lambda: np.asfortranarray(x),
        "noncontiguous_view": lambda: np.repeat(x, 2, axis=x.ndim - 1)[..., ::2],
        "readonly": lambda: (lambda a: (a.setflags(write=False), a)[1])(x.copy()),
        # a bool array whose True bytes are 0xFF / 0x02 (made by viewing a uint8 mask as bool): numpy treats it as the same array
        "true_byte_255": lambda: (x.astype(np.uint8) * 255).view(np.bool_),
        "true_byte_2": lambda: (x.astype(np.uint8) * 2).view(np.bool_),
    }
    for name, mk in variants.items():
        try:
            y = quiet(net.forward, mk())
            out[name] = [[int(v) for v in np.array(r).reshape(-1)] for r in y.tolist()]
        except Exception as e:
            out[name] = e
    return out


def alias_check(net, rows1, rows2):
    """Results handed out by earlier calls must not change when the handle is called again (no buffer shared between the
    returned tensors).  Returns None if fine, else a description."""
    x1, x2 = np.array(rows1, dtype=bool), np.array(rows2, dtype=bool)
    r1 = quiet(net.forward, x1)
    keep = r1.clone()
    r2 = quiet(net.forward, x2)
    keep2 = r2.clone()
    r3 = quiet(net.forward, x1)
    if not torch.equal(r1, keep):
        return "the tensor returned by the first call changed after a second call on the same handle"
    if not torch.equal(r2, keep2):
        return "the tensor returned by the second call changed after a third call on the same handle"
    if not torch.equal(r3, keep):
        return "the same batch gave two different results on one handle"
    return None
