"""Run procworker jobs in fresh interpreters (possibly several at once)."""
import json
import os
import subprocess
import sys
from concurrent.futures import ThreadPoolExecutor


def run_job(scratch, name, job, timeout=300):
    path = os.path.join(scratch, name + ".job.json")
    json.dump(job, open(path, "w"))
    env = dict(os.environ)
    env.pop("VERIF_CHILD", None)
    p = subprocess.run([sys.executable, "-W", "ignore", "-m", "harness.procworker", path], capture_output=True, text=True,
                       timeout=timeout, env=env)
    steps = []
    for line in p.stdout.splitlines():
        try:
            steps.append(json.loads(line))
        except ValueError:
            pass
    done = bool(steps) and steps[-1].get("done")
    if done:
        steps = steps[:-1]
    return {"rc": p.returncode, "steps": steps, "done": done, "stderr": p.stderr[-600:]}


def run_jobs(scratch, jobs, workers=8, timeout=300):
    with ThreadPoolExecutor(max_workers=workers) as ex:
        futs = [ex.submit(run_job, scratch, f"j{i}", j, timeout) for i, j in enumerate(jobs)]
        return [f.result() for f in futs]
