"""C06 — group sum is an exact per-class count, in PyTorch and in the compiled adder."""
import ast
import math
import types
from fractions import Fraction

import numpy as np
import torch

from harness import coqio, cparse, nets, compiled
from harness.common import Check, read_src
from translate import gatecode as t_gc, wrapper as t_wr, groupsum as t_gs

THEOREMS = ["C06_torch", "C06_torch_rejects", "C06_torch_rowwise", "C06_width", "C06_width_expr", "C06_adder",
            "C06_compiled_counts"]
TRUSTED = [
    "Coq 8.16.1 kernel/coqc; all C06 theorems closed under the global context (Q and Z arithmetic only)",
    "translators translate/groupsum.py (forward expression and divisibility assertion) and translate/wrapper.py "
    "(wrapper structure, width and group-size expressions)",
    "Python evaluates the width in binary64: math.ceil(math.log2(n/k + 1)); its agreement with the exact Z.log2_up is "
    "checked by evaluating the real expression for every g up to 2^16 (quick) / 2^20 (thorough) and for 2^m-1, 2^m, 2^m+1, m <= 40; "
    "beyond that it is assumed",
    "torch reshape/sum/division on float64 tensors holding small integers are exact (correctly rounded division)",
]


def width_expr():
    mod = ast.parse(read_src("src/torchlogix/compiled_model.py"))
    for n in ast.walk(mod):
        if isinstance(n, ast.FunctionDef) and n.name == "_generate_batch_processing_function":
            for s in n.body:
                if isinstance(s, ast.Assign) and ast.unparse(s.targets[0]) == "log2_of_num_neurons_per_class_ll":
                    return ast.unparse(s.value)
    raise RuntimeError("width expression not found")


def clog2(x):  # exact ceil(log2(x)) for integer x >= 1
    return (x - 1).bit_length()


def width_checks(ck):
    src = width_expr()
    code = compile(src, "<width>", "eval")
    lim = 2 ** 16 if ck.tier == "quick" else 2 ** 20
    gs = list(range(1, lim + 1)) + [2 ** m + d for m in range(1, 41) for d in (-1, 0, 1)]
    bad = None
    for g in gs:
        for k in (1, 3):
            n = g * k
            w = eval(code, {"math": math, "num_neurons_ll": n, "self": types.SimpleNamespace(num_classes=k)})
            if w != clog2(g + 1):
                bad = (g, k, w, clog2(g + 1))
                break
        if bad:
            break
    ck.count("width_expression_evaluations", 2 * len(gs))
    ck.case({"kind": "width", "expr": src, "max_g": lim}, kind="width")
    if bad:
        g, k, w, e = bad
        if w < e:
            ck.disagree("accumulator width too small for the group size: counts up to g overflow",
                        {"g": g, "k": k, "width": w, "needed": e, "expr": src}, signature={"what": "width"})
        else:
            ck.broke("correspondence", "acc_width vs Python float expression",
                     f"g={g} k={k}: python {w}, exact {e} (wider than needed; harmless for counts)")


def torch_checks(ck):
    from torchlogix.layers import GroupSum
    rng = ck.rng
    n_cases = 40 if ck.tier == "quick" else 400
    coq_cases = []
    for ci in range(n_cases):
        k = rng.randrange(1, 7)
        g = rng.randrange(1, 12)
        n = k * g
        tau = rng.choice([1.0, 2.0, 0.5, 3.0, 10.0, 1 / 0.03, 7.0])
        lead = [rng.randrange(1, 4) for _ in range(rng.randrange(1, 4))]
        x = torch.tensor(np.array([rng.randrange(2) for _ in range(int(np.prod(lead)) * n)]).reshape(*lead, n), dtype=torch.float64)
        if ci % 2:
            # tau assigned after construction (temperature schedules do this): forward must use the current value
            gs = GroupSum(k, rng.choice([1.0, 4.0, 0.25]), device="cpu")
            gs(x)
            gs.tau = tau
            y = gs(x)
        else:
            y = GroupSum(k, tau, device="cpu")(x)
        case = {"kind": "torch", "k": k, "g": g, "tau": tau, "shape": lead + [n], "tau_set_after_construction": bool(ci % 2)}
        ck.case(case, nontrivial=g > 1, kind=f"torch_rank{len(lead) + 1}")
        if list(y.shape) != lead + [k]:
            ck.disagree("GroupSum output shape", case, observed=list(y.shape), signature={"what": "torch-shape"})
            continue
        xf = x.reshape(-1, n).tolist()
        yf = y.reshape(-1, k).tolist()
        for row, out in zip(xf, yf):
            for c in range(k):
                cnt = int(sum(row[c * g:(c + 1) * g]))
                if out[c] != cnt / tau:
                    ck.disagree("GroupSum is not count/tau", dict(case, row=row, cls=c), expected=cnt / tau, observed=out[c],
                                signature={"what": "torch-count"})
        if ci < 6:
            coq_cases.append((k, Fraction(tau), xf[0], yf[0]))
        # non-divisible width must be rejected
        if k > 1:
            xb = torch.zeros(*lead, n + 1, dtype=torch.float64)
            try:
                GroupSum(k, tau, device="cpu")(xb)
                ck.disagree("GroupSum accepts a width not divisible by k", {"k": k, "n": n + 1}, signature={"what": "torch-accepts"})
            except (AssertionError, RuntimeError, ValueError):
                pass
            ck.case({"kind": "torch-reject", "k": k, "n": n + 1}, kind="torch_reject")
    # tau is a Python float: values that binary32 cannot represent (1e-46, 1e39: positive, finite) must not be rounded to 0 / inf before
    # the division - the score is the float32 nearest to count / tau (0 for an empty class, not 0 / 0); float32, 16-bit and integer inputs
    import numpy as _np
    for tau in (1e-46, 1e-300, 5e-324, 1e39, 3.5e38, 1e300):
        for dt in (torch.float32, torch.float64, torch.bfloat16, torch.uint8, torch.bool):
            x = torch.tensor([[1, 1, 0, 0, 0, 0], [0, 0, 1, 0, 1, 1]]).to(dt)
            case = {"kind": "torch-extreme-tau", "tau": tau, "dtype": str(dt)}
            ck.case(case, nontrivial=True, kind="torch-extreme-tau")
            try:
                y = GroupSum(3, tau, device="cpu")(x)
            except Exception as e:
                ck.disagree("GroupSum refuses a positive finite tau", case, observed=repr(e)[:160], signature={"what": "torch-extreme-tau", "kind": "error"})
                continue
            with _np.errstate(over="ignore", under="ignore"):
                want = (_np.array([[2, 0, 0], [0, 1, 2]], dtype=_np.float64) / tau).astype(_np.float64 if y.dtype == torch.float64 else _np.float32)
            got = y.double().numpy()
            if not _np.array_equal(got, want.astype(_np.float64)):
                ck.disagree("GroupSum is not count/tau for a tau that binary32 cannot represent (tau rounded to 0 or inf before the division)",
                            case, expected=want.tolist(), observed=got.tolist(), signature={"what": "torch-extreme-tau", "kind": "wrong"})
    for tau in (0.0, -1.0, float("nan"), float("inf"), -0.0):
        ck.case({"kind": "torch-invalid-tau", "tau": repr(tau)}, kind="torch-invalid-tau")
        for how in ("constructor", "attribute"):
            try:
                if how == "constructor":
                    gs = GroupSum(3, tau, device="cpu")
                else:
                    gs = GroupSum(3, 1.0, device="cpu")
                    gs.tau = tau
                y = gs(torch.tensor([[1.0, 1, 0, 0, 0, 0]]))
            except Exception:
                continue
            ck.disagree("GroupSum accepts a tau that is not positive and finite and returns numbers (inf / NaN scores, or the class ranking reversed)",
                        {"tau": repr(tau), "given": how}, observed=y.tolist(), signature={"what": "torch-invalid-tau"})
    # model evaluated in the kernel
    txt = ("From Coq Require Import ZArith QArith List Bool. Import ListNotations.\nFrom TLX Require Import Model.GroupSum.\n"
           "Definition show (q : Q) := let r := Qred q in (Qnum r, Zpos (Qden r)).\n")
    for k, tau, row, _ in coq_cases:
        txt += (f"Eval vm_compute in option_map (map show) (groupsum {k} {coqio.qlit(tau)} 0 "
                f"(map b2q {coqio.blist([int(v) for v in row])})).\n")
    rc, out, err = ck.coq_eval("c06gs", txt)
    if rc != 0:
        ck.broke("correspondence", "kernel evaluation of Model/GroupSum", err[-500:])
    else:
        for (k, tau, row, y), mv in zip(coq_cases, coqio.parse_evals(out)):
            m = [Fraction(a, b) for a, b in mv]
            if [Fraction(v) for v in y] != [Fraction(float(q)) for q in m] and [float(q) for q in m] != y:
                ck.broke("correspondence", "Model/GroupSum.groupsum", f"k={k} tau={tau}: model {m} torch {y}")
            ck.count("model_vs_torch_groupsum")


def adder_checks(ck):
    """Real compile of an identity network so that every count 0..g is realised, in rotating lanes."""
    rng = ck.rng
    gmax = 40 if ck.tier == "quick" else 300
    Ws = [8, 16, 32, 64]
    gs = list(range(1, gmax + 1)) if ck.tier == "quick" else \
        list(range(1, 70)) + [g for g in range(70, gmax + 1) if (g & (g - 1)) == 0 or ((g + 1) & g) == 0 or ((g - 1) & (g - 2)) == 0 or g % 37 == 0]
    for gi, g in enumerate(gs):
        combos = [(Ws[gi % 4], [1, 2, 3, 10][gi % 4])] if ck.tier == "quick" else [(W, k) for W in Ws for k in ([1, 2, 3, 10] if g <= 40 else [2])]
        for W, k in combos:
            n = g * k
            ident = nets.make_dense(rng, n, [n], gates=[[3] * n], wiring=[(list(range(n)), list(range(n)))], k=k)
            net = compiled.build(ident, W)
            try:
                compiled.compile_net(net, opt=gi % 4)
            except Exception as e:
                ck.broke("correspondence", "compile identity net", repr(e))
                continue
            rows = []
            want = []
            for cnt in range(g + 1):
                r = [0] * n
                w = []
                for c in range(k):
                    cc = (cnt + c) % (g + 1)
                    on = rng.sample(range(g), cc)
                    for a in on:
                        r[c * g + a] = 1
                    w.append(cc)
                rows.append(r)
                want.append(w)
            # rotate the lane in which each count appears
            off = rng.randrange(W)
            rows = [[0] * n] * off + rows
            want = [[0] * k] * off + want
            got = compiled.forward(net, rows)
            case = {"kind": "adder", "g": g, "k": k, "W": W, "lane_offset": off}
            ck.case(case, nontrivial=g > 1, kind="adder")
            ck.count("counts_checked", len(rows) * k)
            if got != want:
                j = next(i for i in range(len(rows)) if got[i] != want[i])
                ck.disagree("compiled adder returns a wrong count", dict(case, row=rows[j], lane=j % W),
                            expected=want[j], observed=got[j], signature={"what": "adder"})
            if gi % 5 == 0 and len(rows) >= 2:
                # counts already returned stay what they were when the handle is called again with another batch of the same size
                msg = compiled.alias_check(net, rows, list(reversed(rows)))
                if msg:
                    ck.disagree("returned counts change after a later call: " + msg, case, signature={"what": "aliasing"})
                ck.count("aliasing_checks")


def compiled_reject_checks(ck):
    """A compiled model whose LAST layer width is not divisible by k must be refused (and a divisible one accepted)."""
    rng = ck.rng
    # conv (+pool) -> flatten -> GroupSum without any dense layer: the flattened width decides
    for shp, layers, k in (((1, 4, 4), [("conv", dict(K=2, depth=1, rf=2))], 4), ((1, 4, 4), [("conv", dict(K=2, depth=1, rf=2))], 9),
                           ((1, 4, 4), [("conv", dict(K=2, depth=1, rf=2)), ("pool", dict(k=2, s=1))], 3),
                           ((1, 2, 2, 3), [("conv", dict(K=3, depth=1, rf=2))], 2), ((1, 4, 4), [("conv", dict(K=2, depth=1, rf=2))], 6)):
        model = nets.make_custom(rng, shp, layers + [("flatten",), ("gs", k)])
        feat = len(nets.eval_spec(dict(nets.extract(model), k=None), [0] * int(np.prod(shp))))
        case = {"kind": "compiled-divisibility-conv", "features": feat, "k": k}
        ck.case(case, kind="compiled_reject")
        try:
            compiled.build(model, 8)
            accepted = True
        except Exception:
            accepted = False
        if accepted != (feat % k == 0):
            ck.disagree("compiled conv-only model: divisibility of the flattened width by k decides acceptance", dict(case, accepted=accepted),
                        signature={"what": "compiled-divisible-conv", "accepted": accepted})
    for n_in, n_out, k in ((6, 7, 3), (7, 9, 3), (4, 7, 2), (5, 10, 5), (6, 9, 2), (9, 6, 3)):
        model = nets.make_dense(rng, 4, [n_in, n_out], k=k)
        case = {"kind": "compiled-divisibility", "last_in": n_in, "last_out": n_out, "k": k}
        ck.case(case, kind="compiled_reject")
        try:
            compiled.build(model, 8)
            accepted = True
        except Exception:
            accepted = False
        if accepted != (n_out % k == 0):
            ck.disagree("compiler accepts a width not divisible by k (or refuses a divisible one)", case, observed=accepted,
                        signature={"what": "compiled-divisible"})


def run(ck: Check):
    ck.trusted = TRUSTED
    ck.rule = ("GroupSum.forward on 0/1 float64 tensors of rank 2..4, k in 1..6, group 1..11, tau in a fixed set, exact "
               "comparison with count/tau, plus non-divisible widths; compiled adder through the real wrapper around an identity "
               "network: every count 0..g for every g <= 40 (quick) in rotating lanes, k and W rotating (thorough: all four W x "
               "k in {1,2,3,10}, g <= 300 incl. all 2^m-1, 2^m, 2^m+1); width expression evaluated for all g <= 2^16 / 2^20. "
               "Non-trivial: group size > 1. Distinct = canonical JSON.")
    ck.translate("GroupSumSrc", t_gs.gen_groupsum)
    ck.translate("WrapperParams", t_wr.gen_wrapper_params)
    ck.prove("Props/C06", THEOREMS)
    width_checks(ck)
    torch_checks(ck)
    adder_checks(ck)
    compiled_reject_checks(ck)
    return ck.finish()


def replay(ck, path):
    return run(ck)
