"""C20 — every predefined architecture is dimensionally consistent and runs end to end."""
import numpy as np
import torch

from harness import coqio
from harness.common import Check
from translate import models as t_models

THEOREMS = ["C20_ClgnMnist", "C20_ClgnCifar10", "C20_ClgnCifar10Res", "C20_ClgnCifar10Tiny", "C20_ClgnCifar10Mini", "C20_CNN",
            "C20_Dlgn", "C20_exceptional_scales", "C20_fixed_scale_classes", "C20_unique_scheme_conv_families",
            "C20_unique_scheme_Mini_refuted", "C20_unique_scheme_Mini_partial", "C20_unique_scheme_dense_family",
            "C20_unique_scheme_fixed_classes"]
TRUSTED = [
    "Coq 8.16.1 kernel/coqc; theorems closed under the global context (lia with Z.div_mod_to_equations; vm_compute on closed spatial sizes)",
    "translator translate/models.py: symbolic construction of every exported class with recording stub layers that bind their "
    "arguments against the real constructors' signatures and a symbolic scale parameter; the recorded dimensions must be affine in k",
    "shape rules Model/Shapes.v are hand-written and tied by building the real classes at k in {1, 2} (and small dense widths) and "
    "comparing the shapes observed by forward hooks with the model's shapes evaluated in the kernel",
    "real construction at the defining scale of the large fixed-scale subclasses (k_num up to 2560) is not attempted: their argument "
    "plumbing is exercised by the stub construction and their shapes by the forall-k theorems",
]


def hooks_shapes(model, x):
    shapes = []
    hs = []
    seq = model if isinstance(model, torch.nn.Sequential) else model.model
    for m in seq:
        hs.append(m.register_forward_hook(lambda mod, inp, out: shapes.append(list(out.shape[1:]))))
    try:
        y = model(x)
    finally:
        for h in hs:
            h.remove()
    return y, shapes


def run(ck: Check):
    from torchlogix import models as M
    from torchlogix.models.baseline_nn import FullyConnectedNN
    from torchlogix.models.nn import RandomlyConnectedNN
    ck.trusted = TRUSTED
    ck.rule = ("every k-parametric exported class built for real at k_num in {1, 2} (quick: heavy CIFAR classes only at 1) x parametrisation "
               "{raw, walsh}, dense family at small widths, baselines; train and eval forward on a batch of the documented shape; "
               "per-layer shapes from forward hooks compared with the Coq shape model evaluated at the same k; outputs finite, "
               "shape (batch, classes), integer*(1/tau) in eval for classes without residual additions. Non-trivial: k >= 2 or a "
               "non-default parametrisation. Distinct = canonical JSON of (class, k, parametrisation).")
    ck.translate("Models", t_models.gen_models)
    ck.prove("Props/C20", THEOREMS)
    rng = ck.rng
    thorough = ck.tier == "thorough"
    specs = [
        ("ClgnMnist", lambda k, kw: M.ClgnMnist(k_num=k, **kw), (1, 28, 28), 1.0, False, "ClgnMnist_layers"),
        ("ClgnCifar10", lambda k, kw: M.ClgnCifar10(n_bits=1, k_num=k, tau=2.0, **kw), (3, 32, 32), 2.0, False, "ClgnCifar10_nbits1_layers"),
        ("ClgnCifar10Res", lambda k, kw: M.ClgnCifar10Res(n_bits=1, k_num=k, tau=2.0, **kw), (3, 32, 32), 2.0, True, "ClgnCifar10Res_nbits1_layers"),
        ("ClgnCifar10Tiny", lambda k, kw: M.ClgnCifar10Tiny(k_num=k, **kw), (9, 32, 32), 20.0, False, "ClgnCifar10Tiny_layers"),
        ("ClgnCifar10Mini", lambda k, kw: M.ClgnCifar10Mini(k_num=k, **kw), (9, 32, 32), 10.0, False, "ClgnCifar10Mini_layers"),
        ("DlgnMnist", lambda k, kw: M.DlgnMnist(neurons_per_layer=10 * k, tau=4.0, **kw), (1, 28, 28), 4.0, False, "DlgnMnist_layers"),
        ("DlgnCifar10", lambda k, kw: M.DlgnCifar10(n_bits=2, n_layers=4, neurons_per_layer=10 * k, tau=4.0, **kw), (6, 32, 32), 4.0, False, "DlgnCifar10_2_4_layers"),
        ("Dlgn", lambda k, kw: M.Dlgn(in_dim=12, n_layers=3, neurons_per_layer=4 * k, class_count=4, tau=1.0, **kw), (1, 3, 4), 1.0, False, "Dlgn_generic_layers"),
        ("RandomlyConnectedNN", lambda k, kw: RandomlyConnectedNN(in_dim=12, k=4 * k, layers=3, class_count=4, tau=1.0, **kw), (1, 3, 4), 1.0, False, "RandomlyConnectedNN_layers"),
    ]
    coq_items = []
    for name, mk, shape, tau, residual, coqname in specs:
        ks = [1, 2] if (thorough or name in ("ClgnMnist", "Dlgn", "RandomlyConnectedNN", "DlgnMnist")) else [1]
        if name.startswith("Dlgn") or name == "RandomlyConnectedNN":
            ks = ks + [3, 7]
        for k in ks:
            for par in (("raw", "walsh") if (k == 1 or thorough) else ("raw",)):
                if name in ("RandomlyConnectedNN",) and par == "walsh" and k > 1:
                    continue
                case = {"class": name, "k": k, "parametrization": par}
                ck.case(case, nontrivial=(k >= 2 or par != "raw"), kind=name)
                torch.manual_seed(ck.seed + k)
                try:
                    model = mk(k, dict(device="cpu", parametrization=par))
                except Exception as e:
                    ck.disagree("exported model class cannot be constructed", case, observed=repr(e)[:300],
                                signature={"class": name, "what": "construct"})
                    continue
                xb = (torch.rand(2, *shape) > 0.5).float()
                try:
                    model.train()
                    with torch.no_grad():
                        yt = model(xb)
                    model.eval()
                    with torch.no_grad():
                        ye, shapes = hooks_shapes(model, xb)
                except Exception as e:
                    ck.disagree("forward of an exported model class fails (layers do not agree on shapes)", case, observed=repr(e)[:300],
                                signature={"class": name, "what": "forward"})
                    continue
                classes = 4 if name in ("Dlgn", "RandomlyConnectedNN") else 10
                for y, mode in ((yt, "train"), (ye, "eval")):
                    if list(y.shape) != [2, classes] or not torch.isfinite(y).all():
                        ck.disagree("output is not finite scores of shape (batch, classes)", dict(case, mode=mode, shape=list(y.shape)),
                                    signature={"class": name, "what": "output"})
                if not residual:
                    v = (ye.double() * tau)
                    if not ((v - v.round()).abs().max() <= 1e-4) or (v < -1e-6).any():
                        ck.disagree("eval output times tau is not an integer count", case, observed=ye.tolist(),
                                    signature={"class": name, "what": "integral"})
                coq_items.append((coqname, k, shape, shapes, case))
    # the connection-scheme axis: the real class with connections='unique' constructs and runs exactly where the Coq
    # admissibility predicate (Model/Shapes.unique_all, proved for every k in Props/C20) says it can
    scheme_items = []
    sch = [("ClgnMnist", 1), ("ClgnCifar10Tiny", 1), ("ClgnCifar10Mini", 1), ("Dlgn", 1), ("Dlgn", 2), ("Dlgn", 4), ("Dlgn", 5),
           ("DlgnMnist", 39), ("DlgnMnist", 40)]
    if thorough:
        sch += [("ClgnMnist", 2), ("ClgnCifar10", 1), ("ClgnCifar10Res", 1), ("ClgnCifar10", 2), ("ClgnCifar10Mini", 2), ("ClgnCifar10Tiny", 2),
                ("Dlgn", 3), ("DlgnCifar10", 307), ("DlgnCifar10", 308)]
    by_name = {sp[0]: sp for sp in specs}
    for name, k in sch:
        _, mk, shape, tau, residual, coqname = by_name[name]
        for par in (("raw", "walsh") if k <= 2 else ("raw",)):
            case = {"class": name, "k": k, "parametrization": par, "connections": "unique"}
            ck.case(case, nontrivial=True, kind="scheme-" + name)
            torch.manual_seed(ck.seed + k)
            err = None
            try:
                model = mk(k, dict(device="cpu", parametrization=par, connections="unique"))
                xb = (torch.rand(2, *shape) > 0.5).float()
                for mode in ("train", "eval"):
                    model.train(mode == "train")
                    with torch.no_grad():
                        y = model(xb)
                    classes = 4 if name == "Dlgn" else 10
                    if list(y.shape) != [2, classes] or not torch.isfinite(y).all():
                        raise ValueError(f"{mode} output of shape {list(y.shape)}")
            except Exception as e:
                err = repr(e)[:300]
            scheme_items.append((coqname, k, case, err))
    # the same scheme through the convolution's own name for it
    for name in ("ClgnMnist",):
        from torchlogix.layers import LogicConv2d
        for nm_ in ("unique", "random-unique"):
            ck.case({"layer": "LogicConv2d", "connections": nm_}, kind="scheme-name")
            try:
                LogicConv2d(in_dim=6, device="cpu", channels=2, num_kernels=2, tree_depth=2, receptive_field_size=2, connections=nm_)
            except Exception as e:
                ck.disagree("a convolution refuses a name of the non-default connection scheme", {"connections": nm_}, observed=repr(e)[:200],
                            signature={"class": "LogicConv2d", "what": "scheme-name", "connections": nm_})
    # a rare but documented combination of options passed through **llkw: a gradient factor on the padded architectures
    for name, mk, shape, tau, residual, coqname in specs:
        if name not in ("ClgnCifar10", "ClgnCifar10Res", "ClgnMnist", "DlgnMnist"):
            continue
        case = {"class": name, "k": 1, "grad_factor": 2.0, "temperature": 0.5}
        ck.case(case, nontrivial=True, kind="options")
        try:
            torch.manual_seed(ck.seed)
            model = mk(1, dict(device="cpu", grad_factor=2.0, temperature=0.5))
            xb = (torch.rand(2, *shape) > 0.5).float().requires_grad_(True)
            model.train()
            y = model(xb)
            y.sum().backward()
            model.eval()
            with torch.no_grad():
                ye = model(xb.detach())
            if list(ye.shape) != [2, 10] or not torch.isfinite(ye).all() or not torch.isfinite(y).all():
                raise ValueError("non-finite or mis-shaped output")
        except Exception as e:
            ck.disagree("exported model class fails with a gradient factor / temperature passed through its keyword arguments", case,
                        observed=repr(e)[:300], signature={"class": name, "what": "options"})
    # a tau given to a class reaches its group sum (real objects; the translator checks the same on the recording stubs)
    import inspect
    for cname in ("ClgnCifar10", "ClgnCifar10Res", "ClgnCifar10Mini", "DlgnMnist", "DlgnCifar10", "Dlgn", "CNN"):
        cls = getattr(M, cname, None)
        if cls is None or "tau" not in inspect.signature(cls.__init__).parameters:
            continue
        kwargs = {"ClgnCifar10": dict(n_bits=1, k_num=1), "ClgnCifar10Res": dict(n_bits=1, k_num=1), "ClgnCifar10Mini": dict(k_num=1),
                  "DlgnMnist": dict(neurons_per_layer=10), "DlgnCifar10": dict(n_bits=1, n_layers=2, neurons_per_layer=10),
                  "Dlgn": dict(in_dim=12, n_layers=2, neurons_per_layer=8, class_count=4), "CNN": dict(class_count=10)}[cname]
        case = {"class": cname, "tau": 8.0}
        ck.case(case, nontrivial=True, kind="tau-plumbing")
        try:
            mdl = cls(tau=8.0, device="cpu", **kwargs)
            gsl = [m_ for m_ in mdl.modules() if type(m_).__name__ == "GroupSum"]
            if not gsl or float(gsl[-1].tau) != 8.0:
                ck.disagree("the tau given to a model class does not reach its group sum", dict(case, groupsum_tau=float(gsl[-1].tau) if gsl else None),
                            signature={"class": cname, "what": "tau"})
        except Exception as e:
            ck.disagree("exported model class cannot be constructed with a tau", case, observed=repr(e)[:200], signature={"class": cname, "what": "construct"})
    # scales at which a comparison inside a constructor takes the other branch (reported by the translator): the real class there
    for cls, kwargs, shape in list(t_models.LAST_EXCEPTIONAL)[:6]:
        case = {"class": cls, "exceptional_scale": True, **{k_: v for k_, v in kwargs.items()}}
        ck.case(case, nontrivial=True, kind="exceptional-scale")
        try:
            torch.manual_seed(ck.seed)
            model = getattr(M, cls)(device="cpu", **kwargs)
            xb = (torch.rand(2, *shape) > 0.5).float()
            for mode in ("train", "eval"):
                model.train(mode == "train")
                with torch.no_grad():
                    y = model(xb)
                if list(y.shape) != [2, 10] or not torch.isfinite(y).all():
                    raise ValueError(f"{mode} output of shape {list(y.shape)}")
        except Exception as e:
            ck.disagree("exported model class fails at a scale where a constructor comparison flips", case, observed=repr(e)[:300],
                        signature={"class": cls, "what": "exceptional-scale"})
    # baselines construct and run
    for nm, mk, x in (("FullyConnectedNN", lambda: FullyConnectedNN(12, 7, 3, 4, torch.float32), torch.rand(2, 3, 4)),
                      ("FullyConnectedNN-2", lambda: FullyConnectedNN(12, 5, 2, 3, torch.float32), torch.rand(3, 12)),
                      ("RandomlyConnectedNN-base", lambda: RandomlyConnectedNN(12, 8, 2, 4, 1.0, device="cpu"), torch.rand(2, 3, 4))):
        ck.case({"class": nm}, kind="baseline")
        try:
            y = mk()(x)
            if not torch.isfinite(y).all():
                raise ValueError("non-finite output")
        except Exception as e:
            ck.disagree("baseline network cannot be constructed / run", {"class": nm}, observed=repr(e)[:200],
                        signature={"class": nm, "what": "baseline"})
    # small fixed-scale subclasses for real (thorough)
    if thorough:
        for nm in ("ClgnCifar10Mini32", "ClgnCifar10Tiny32", "ClgnMnistSmall"):
            ck.case({"class": nm, "real": True}, kind="fixed-real")
            try:
                getattr(M, nm)(device="cpu")
            except Exception as e:
                ck.disagree("exported fixed-scale class cannot be constructed", {"class": nm}, observed=repr(e)[:200],
                            signature={"class": nm, "what": "construct"})
    # shape model in the kernel at the same k
    txt = ("From Coq Require Import ZArith List. Import ListNotations.\nFrom TLX Require Import Model.Shapes Gen.Models.\nLocal Open Scope Z_scope.\n"
           "Definition show (s : option shape) : list Z := match s with Some (Sp c d) => c :: d | Some (Fl n) => [n] | None => [] end.\n"
           "Fixpoint trace (ls : list lspec) (s : option shape) : list (list Z) :=\n"
           "  match ls with [] => [] | x :: r => let s' := match s with Some v => layer_b 3 x v | None => None end in show s' :: trace r s' end.\n")
    for coqname, k, shape, _, _ in coq_items:
        txt += f"Eval vm_compute in trace ({coqname} {k}) (Some (Sp {shape[0]} [{'; '.join(str(v) for v in shape[1:])}])).\n"
    txt += "Eval vm_compute in [" + "; ".join(f"unique_all_b ({coqname} {k})" for coqname, k, _, _ in scheme_items) + "].\n"
    rc, out, err = ck.coq_eval("c20m", txt)
    if rc != 0:
        ck.broke("correspondence", "kernel evaluation of Model/Shapes", err[-600:])
    else:
        evs = coqio.parse_evals(out)
        for (coqname, k, case, err_), adm in zip(scheme_items, evs[len(coq_items)]):
            ck.count("model_vs_impl_scheme_decisions")
            proved_all_k = case["class"] not in ("Dlgn", "DlgnMnist", "DlgnCifar10", "ClgnCifar10Mini")
            if err_ is not None and (adm or proved_all_k):
                ck.disagree("exported model class cannot be built / run with connections='unique' although every layer admits the scheme",
                            case, observed=err_, signature={"class": case["class"], "what": "construct", "connections": "unique"})
            elif err_ is not None and case["class"] == "ClgnCifar10Mini":
                # refuted in the model for every k (C20_unique_scheme_Mini_refuted): the statement fails for this class
                ck.disagree("ClgnCifar10Mini cannot be built with connections='unique' at any scale: its last dense layer "
                            "(128 k -> 60 k) is narrower than half its input", case, observed=err_,
                            signature={"class": "ClgnCifar10Mini", "what": "construct", "connections": "unique", "layer": "dense-128k-60k"})
            elif err_ is None and not adm:
                ck.broke("correspondence", "Model/Shapes.unique_all_b", f"{case}: the class constructs although the model says the scheme is not admissible")
        for (coqname, k, shape, shapes, case), mv in zip(coq_items, evs):
            ck.count("model_vs_impl_shape_traces")
            got = [list(s) for s in shapes]
            if [list(s) for s in mv] != got:
                ck.broke("correspondence", "Model/Shapes vs forward hooks", f"{case}: model {mv} observed {got}")
    return ck.finish()


def replay(ck, path):
    return run(ck)
