"""Strict parser for the C text emitted by CompiledLogicNet.get_c_code() (DESIGN.md appendix A.1).
Anything outside the accepted fragment raises ParseError (= broken tie, never a guess)."""
import re

DTYPE = {8: "char", 16: "short", 32: "int", 64: "long long"}
ZERO = {8: "(char) 0", 16: "(short) 0", 32: "0", 64: "0LL"}
ONE = {8: "(char) 1", 16: "(short) 1", 32: "1", 64: "1LL"}
UDTYPE = {8: "unsigned char", 16: "unsigned short", 32: "unsigned int", 64: "unsigned long long"}


class ParseError(Exception):
    pass


TOK = re.compile(r"\s*(long long|[A-Za-z_][A-Za-z_0-9]*|\d+LL|\d+|[\[\]()~&|^*+])")


def tokenize(s):
    toks = []
    i = 0
    s = s.strip()
    while i < len(s):
        m = TOK.match(s, i)
        if not m:
            raise ParseError("bad token at: " + s[i:i + 30])
        toks.append(m.group(1))
        i = m.end()
    return toks


class ExprParser:
    """expr over atoms buf[const-index], local names and the zero literal."""

    def __init__(self, toks, W, bufs, locals_, locbuf):
        self.t = toks
        self.i = 0
        self.W = W
        self.bufs = bufs
        self.locals = locals_
        self.locbuf = locbuf

    def peek(self, k=0):
        return self.t[self.i + k] if self.i + k < len(self.t) else None

    def eat(self, x=None):
        v = self.peek()
        if v is None or (x is not None and v != x):
            raise ParseError(f"expected {x!r}, got {v!r}")
        self.i += 1
        return v

    def top(self):
        # optional outer cast "(T) ( expr )"
        if self.peek() == "(" and self.peek(1) == DTYPE[self.W] and self.peek(2) == ")" and self.peek(3) == "(":
            save = self.i
            self.i += 3
            self.eat("(")
            e = self.p_or()
            self.eat(")")
            if self.peek() is None:
                return e
            self.i = save
        e = self.p_or()
        if self.peek() is not None:
            raise ParseError("trailing tokens in expression: " + " ".join(self.t[self.i:]))
        return e

    def p_or(self):
        e = self.p_xor()
        while self.peek() == "|":
            self.eat()
            e = ("or", e, self.p_xor())
        return e

    def p_xor(self):
        e = self.p_and()
        while self.peek() == "^":
            self.eat()
            e = ("xor", e, self.p_and())
        return e

    def p_and(self):
        e = self.p_un()
        while self.peek() == "&":
            self.eat()
            e = ("and", e, self.p_un())
        return e

    def p_un(self):
        v = self.peek()
        if v == "~":
            self.eat()
            return ("not", self.p_un())
        if v == "(":
            if self.peek(1) in DTYPE.values():
                # zero literal "(T) 0" of the right type only
                if self.peek(1) != DTYPE[self.W] or self.peek(2) != ")" or self.peek(3) != "0":
                    raise ParseError("cast other than the zero literal of the word type")
                self.i += 4
                return ("zero",)
            self.eat("(")
            e = self.p_or()
            self.eat(")")
            return e
        if v is None:
            raise ParseError("unexpected end of expression")
        if re.fullmatch(r"\d+(LL)?", v):
            if ZERO[self.W] != v:
                raise ParseError(f"numeric literal {v} is not the zero literal of this width")
            self.eat()
            return ("zero",)
        name = self.eat()
        if self.peek() == "[":
            self.eat("[")
            idx = self.p_index()
            self.eat("]")
            if name not in self.bufs:
                raise ParseError("undeclared array " + name)
            return ("load", self.bufs[name], idx)
        if name in self.locals:
            return ("load", self.locbuf, self.locals[name])
        raise ParseError("unknown name " + name)

    def p_index(self):
        # sum of products of decimal literals
        total = self.p_prod()
        while self.peek() == "+":
            self.eat()
            total += self.p_prod()
        return total

    def p_prod(self):
        v = self.eat()
        if not re.fullmatch(r"\d+", v):
            raise ParseError("index is not a constant: " + v)
        p = int(v)
        while self.peek() == "*":
            self.eat()
            v = self.eat()
            if not re.fullmatch(r"\d+", v):
                raise ParseError("index is not a constant: " + v)
            p *= int(v)
        return p


def parse_index(s):
    p = ExprParser(tokenize(s), 32, {}, {}, 0)
    v = p.p_index()
    if p.peek() is not None:
        raise ParseError("index: " + s)
    return v


def parse_unit(text, W):
    """Returns dict(sizes=[...], body=[stmt...], has_wrapper, holes, names, n_locals, statics)."""
    T = DTYPE[W]
    lines = text.split("\n")
    hdr = ["#include <stddef.h>", "#include <stdlib.h>", "#include <stdbool.h>", "#include <string.h>", "",
           f"void logic_net({T} const *inp, {T} *out);", "",
           f"void logic_net({T} const *inp, {T} *out) {{"]
    if lines[:len(hdr)] != hdr:
        for a, b in zip(lines, hdr):
            if a != b:
                raise ParseError(f"header line {a!r} != {b!r}")
        raise ParseError("header too short")
    i = len(hdr)
    bufs = {"inp": 0, "out": 1}
    sizes = [None, None]
    names = ["inp", "out"]
    # intermediate buffers are thread-local statics (F27): one copy per thread, not on the stack
    # (the storage class of every declaration is recorded: C16 and C11 decide what they require of it)
    decl_re = re.compile(r"\t(static __thread |static |)" + re.escape(T) + r" ([A-Za-z_][A-Za-z_0-9]*)\[(\d+)\];")
    storages = []
    while i < len(lines):
        m = decl_re.fullmatch(lines[i])
        if not m:
            break
        if m.group(2) in bufs:
            raise ParseError("array declared twice: " + m.group(2))
        bufs[m.group(2)] = len(sizes)
        names.append(m.group(2))
        sizes.append(int(m.group(3)))
        storages.append({"static __thread ": "ThreadLocal", "static ": "SharedStatic", "": "Automatic"}[m.group(1)])
        i += 1
    locbuf = len(sizes)
    locals_ = {}
    body = []
    stmt_lines = []
    assign_re = re.compile(r"\t([A-Za-z_][A-Za-z_0-9]*)\[([^\]]+)\] (\|?=) (.*);")
    const_re = re.compile(r"\tconst " + re.escape(T) + r" ([A-Za-z_][A-Za-z_0-9]*) = (.*);")
    memcpy_re = re.compile(r"\tmemcpy\(([A-Za-z_][A-Za-z_0-9]*), ([A-Za-z_][A-Za-z_0-9]*), (\d+) \* sizeof\(" + re.escape(T) + r"\)\);")
    while i < len(lines):
        ln = lines[i]
        if ln == "}":
            break
        if ln.strip() == "" or re.fullmatch(r"\t//.*", ln):
            i += 1
            continue
        if re.search(r"\bstatic\b", ln):
            raise ParseError("static object in logic_net: " + ln)
        m = memcpy_re.fullmatch(ln)
        if m:
            d, s, n = m.group(1), m.group(2), int(m.group(3))
            if d not in bufs or s not in bufs:
                raise ParseError("memcpy of undeclared array: " + ln)
            body.append(("memcpy", bufs[d], bufs[s], n))
            stmt_lines.append(ln)
            i += 1
            continue
        m = const_re.fullmatch(ln)
        if m:
            nm = m.group(1)
            if nm in locals_ or nm in bufs:
                raise ParseError("local declared twice: " + nm)
            e = ExprParser(tokenize(m.group(2)), W, bufs, locals_, locbuf).top()
            locals_[nm] = len(locals_)
            body.append(("assign", locbuf, locals_[nm], e))
            stmt_lines.append(ln)
            i += 1
            continue
        m = assign_re.fullmatch(ln)
        if m:
            nm, idx, op, rhs = m.groups()
            if nm not in bufs:
                raise ParseError("assignment to undeclared array " + nm)
            ix = parse_index(idx)
            e = ExprParser(tokenize(rhs), W, bufs, locals_, locbuf).top()
            if op == "|=":
                if e[0] != "load":
                    raise ParseError("|= with a non-load operand")
                e = ("or", ("load", bufs[nm], ix), e)
            body.append(("assign", bufs[nm], ix, e))
            stmt_lines.append(ln)
            i += 1
            continue
        raise ParseError("unrecognised statement: " + ln[:120])
    if i >= len(lines) or lines[i] != "}":
        raise ParseError("logic_net does not end with }")
    i += 1
    if locals_:
        sizes.append(len(locals_))
        names.append("<locals>")
    rest = "\n".join(lines[i:])
    holes = None
    if rest.strip():
        holes = parse_wrapper(rest, W)
    return {"sizes": sizes, "body": body, "holes": holes, "names": names, "n_locals": len(locals_),
            "stmt_lines": stmt_lines, "storages": storages}


WRAPPER = """
void apply_logic_net(bool const *inp, int *out, size_t len) {
<T> *inp_temp = malloc(<IN>*sizeof(<T>));
<T> *out_temp = malloc(<N>*sizeof(<T>));
<T> *out_temp_o = malloc(<WD>*sizeof(<T>));
for(size_t i = 0; i < len; ++i) {
// Converting the bool array into a bitpacked array
for(size_t d = 0; d < <IN>; ++d) {
<T> res = <Z>;
for(size_t b = 0; b < <W>; ++b) {
res = (<T>) (((<UT>) res << 1) | !!(inp[i * <IN> * <W> + (<W> - b - 1) * <IN> + d]));
}
inp_temp[d] = res;
}
// Applying the logic net
logic_net(inp_temp, out_temp);
// GroupSum of the results via logic gate networks
for(size_t c = 0; c < <K>; ++c) { // for each class
// Initialize the output bits
for(size_t d = 0; d < <WD>; ++d) {
out_temp_o[d] = <Z>;
}
// Apply the adder logic gate network
for(size_t a = 0; a < <G>; ++a) {
<T> carry = out_temp[c * <G> + a];
<T> out_temp_o_d;
for(int d = <WD> - 1; d >= 0; --d) {
out_temp_o_d = out_temp_o[d];
out_temp_o[d] = carry ^ out_temp_o_d;
carry = carry & out_temp_o_d;
}
}
// Unpack the result bits
for(size_t b = 0; b < <W>; ++b) {
const <T> bit_mask = (<T>) ((<UT>) 1 << b);
int res = 0;
for(size_t d = 0; d < <WD>; ++d) {
res <<= 1;
res += !!(out_temp_o[d] & bit_mask);
}
out[(i * <W> + b) * <K> + c] = res;
}
}
}
free(inp_temp);
free(out_temp);
free(out_temp_o);
}
"""


def _norm(txt):
    lines = [re.sub(r"\s+", " ", l).strip() for l in txt.strip().splitlines()]
    return [l for l in lines if l]


def parse_wrapper(rest, W):
    got = _norm(rest)
    tmpl = _norm(WRAPPER)
    if len(got) != len(tmpl):
        raise ParseError(f"wrapper has {len(got)} lines, modelled structure has {len(tmpl)}")
    holes = {}
    fixed = {"T": DTYPE[W], "UT": UDTYPE[W], "Z": ZERO[W], "ONE": ONE[W], "W": str(W)}
    for g, t in zip(got, tmpl):
        parts = re.split(r"<([A-Z]+)>", t)
        rx = ""
        order = []
        for k, p in enumerate(parts):
            if k % 2 == 0:
                rx += re.escape(p)
            elif p in fixed:
                rx += re.escape(fixed[p])
            else:
                rx += r"(\d+)"
                order.append(p)
        m = re.fullmatch(rx, g)
        if not m:
            raise ParseError(f"wrapper line {g!r} does not match modelled {t!r}")
        for nm, v in zip(order, m.groups()):
            if holes.setdefault(nm, int(v)) != int(v):
                raise ParseError(f"wrapper hole {nm} has two values: {holes[nm]} and {v}")
    return {"in_size": holes["IN"], "n_out": holes["N"], "width": holes["WD"], "k": holes["K"], "g": holes["G"], "W": W}


# ---------------------------------------------------------------- Coq literals
def gexp_coq(e):
    k = e[0]
    if k == "load":
        return f"(GLoad {e[1]} {e[2]})"
    if k == "zero":
        return "GZero"
    if k == "not":
        return f"(GNot {gexp_coq(e[1])})"
    return {"and": "(GAnd ", "or": "(GOr ", "xor": "(GXor "}[k] + gexp_coq(e[1]) + " " + gexp_coq(e[2]) + ")"


def stmt_coq(s):
    if s[0] == "memcpy":
        return f"SMemcpy {s[1]} {s[2]} {s[3]}"
    return f"SAssign {s[1]} {s[2]} {gexp_coq(s[3])}"


def prog_coq(p):
    return ("{| sizes := [" + "; ".join(str(x) for x in p["sizes"]) + "]%nat;\n   body := [" +
            ";\n     ".join(stmt_coq(s) for s in p["body"]) + "] |}")


# ---------------------------------------------------------------- reference interpreter (python, for search)
def eval_gexp(e, mem, sizes, W):
    k = e[0]
    if k == "load":
        if not (0 <= e[2] < sizes[e[1]]):
            raise IndexError(f"index {e[2]} outside buffer {e[1]} of size {sizes[e[1]]}")
        v = mem.get((e[1], e[2]))
        if v is None:
            raise KeyError(f"read of uninitialised cell {e[1]}[{e[2]}]")
        return v
    if k == "zero":
        return 0
    if k == "not":
        return ~eval_gexp(e[1], mem, sizes, W)
    a, b = eval_gexp(e[1], mem, sizes, W), eval_gexp(e[2], mem, sizes, W)
    return a & b if k == "and" else (a | b if k == "or" else a ^ b)


def wrapW(v, W):
    v &= (1 << W) - 1
    return v - (1 << W) if v >> (W - 1) else v


def exec_prog(p, inp, W):
    sizes = p["sizes"]
    if len(inp) != sizes[0]:
        raise IndexError("input length")
    mem = {(0, i): v for i, v in enumerate(inp)}
    for s in p["body"]:
        if s[0] == "memcpy":
            _, d, src, n = s
            if d == 0 or d == src or n > sizes[d] or n > sizes[src]:
                raise IndexError("memcpy out of bounds")
            for i in range(n):
                if (src, i) not in mem:
                    raise KeyError("memcpy of uninitialised cell")
                mem[(d, i)] = mem[(src, i)]
        else:
            _, b, ix, e = s
            if b == 0 or not (0 <= ix < sizes[b]):
                raise IndexError(f"store outside buffer {b}[{ix}] size {sizes[b]}")
            mem[(b, ix)] = wrapW(eval_gexp(e, mem, sizes, W), W)
    out = []
    for i in range(sizes[1]):
        if (1, i) not in mem:
            raise KeyError(f"out[{i}] never written")
        out.append(mem[(1, i)])
    return out


# ---------------------------------------------------------------- Coq literals with binary indices (Model/GenStream.progN)
def gexp_coqN(e):
    k = e[0]
    if k == "load":
        return f"(NLoad {e[1]} {e[2]}%N)"
    if k == "zero":
        return "NZero"
    if k == "not":
        return f"(NNot {gexp_coqN(e[1])})"
    return {"and": "(NAnd ", "or": "(NOr ", "xor": "(NXor "}[k] + gexp_coqN(e[1]) + " " + gexp_coqN(e[2]) + ")"


def stmt_coqN(s):
    if s[0] == "memcpy":
        return f"NMemcpy {s[1]} {s[2]} {s[3]}%N"
    return f"NAssign {s[1]} {s[2]}%N {gexp_coqN(s[3])}"


def prog_coqN(p):
    return ("{| sizesN := [" + "; ".join(f"{x}%N" for x in p["sizes"]) + "];\n   bodyN := [" +
            ";\n     ".join(stmt_coqN(s) for s in p["body"]) + "] |}")
