"""C09 — hard and straight-through sampling forward the discretised values."""
import numpy as np
import torch

from harness import nets
from harness.common import Check
from translate import dispatch as t_disp, ops as t_ops

THEOREMS = ["C09_ste_value", "C09_argmax_softmax", "C09_hard_equals_eval", "C09_hard_neuron", "C09_eval_table",
            "C09_hard_walsh_value", "C09_gumbel_hard_single_gate", "C09_dispatch", "C09_eval_unchanged", "C09_sampling_source"]
TRUSTED = [
    "Coq 8.16.1 kernel/coqc; theorems over R depend on the standard-library Reals axioms and Classical_Prop.classic; dispatch theorems closed",
    "translators translate/dispatch.py, translate/ops.py",
    "binary32: x_hard - x.detach() + x is exactly x_hard only when (1 - p) + p rounds to 1; the comparison therefore allows 1e-6 "
    "(a few ulp) between training-mode 'hard' values and eval values; this rounding is not proved",
    "torch.nn.functional.gumbel_softmax(hard=True) returns y_hard - y_soft.detach() + y_soft with y_hard one-hot (documented; observed, not proved)",
]
TOL = 1e-6


def run(ck: Check):
    from torchlogix.layers import LogicDense, LogicConv2d
    from harness.c12 import make_layer
    ck.trusted = TRUSTED
    ck.rule = ("dense and conv2d layers, raw and Walsh, residual and random init (incl. Walsh forms in (0, 0.5]), tree depth 1..3, temperature in "
               "{0.3, 1, 4}: training-mode output with forward_sampling='hard' vs eval output on exhaustive Boolean inputs (small) and random "
               "[0,1] inputs; after a soft warm-up forward and a switch of forward_sampling on the same object; gumbel_hard over 30 draws: each "
               "neuron's outputs over the batch equal one gate's table (raw) / lie in {0,1} (Walsh). Non-trivial: random init or depth >= 2. "
               "Distinct = canonical JSON of the configuration.")
    ck.translate("Dispatch", t_disp.gen_dispatch)
    ck.translate("Ops", t_ops.gen_ops)
    ck.prove("Props/C09", THEOREMS)
    rng = ck.rng
    reps = 2 if ck.tier == "quick" else 8

    def hard_vs_eval(l, x, case, sig):
        l.train()
        with torch.no_grad():
            yt = l(x)
        l.eval()
        with torch.no_grad():
            ye = l(x)
        d = float((yt - ye).abs().max())
        ck.count("outputs_compared", int(np.prod(yt.shape)))
        if not d <= TOL:          # NaN counts as a difference
            ck.disagree("training-mode output under forward_sampling='hard' differs from the eval-mode output", dict(case, maxdiff=d),
                        signature=sig)
            return False
        return True

    for rep in range(reps):
        for par in ("raw", "walsh"):
            for init in ("random", "residual"):
                for tau in (0.3, 1.0, 4.0):
                    torch.manual_seed(ck.seed * 3 + rep * 11 + int(tau * 10))
                    n_in, n_out = rng.randrange(2, 7), rng.randrange(3, 9)
                    l = LogicDense(n_in, n_out, device="cpu", parametrization=par, weight_init=init, temperature=tau, forward_sampling="hard")
                    case = {"layer": "dense", "param": par, "init": init, "tau": tau, "in": n_in, "out": n_out}
                    ck.case(case, nontrivial=init == "random", kind=f"dense-{par}")
                    xb = torch.tensor(nets.all_rows(n_in), dtype=torch.float32)
                    import copy
                    fresh = copy.deepcopy(l)
                    fresh.forward_sampling = "soft"
                    fresh.train()
                    with torch.no_grad():
                        fresh(torch.rand(4, n_in))
                    fresh.forward_sampling = "hard"
                    hard_vs_eval(fresh, xb, dict(case, sequence="fresh object: soft forward, then switch to hard"),
                                 {"layer": "dense", "param": par, "what": "mode-switch"})
                    hard_vs_eval(l, xb, case, {"layer": "dense", "param": par, "what": "hard-vs-eval"})
                    hard_vs_eval(l, torch.rand(16, n_in), dict(case, inputs="real"), {"layer": "dense", "param": par, "what": "hard-vs-eval"})
                    # switch of the sampling mode on a live object
                    l.forward_sampling = "soft"
                    l.train()
                    with torch.no_grad():
                        l(torch.rand(4, n_in))
                    l.forward_sampling = "hard"
                    hard_vs_eval(l, xb, dict(case, sequence="soft-forward then hard"), {"layer": "dense", "param": par, "what": "mode-switch"})
    # near-tied logits and extreme temperatures: the hard gate is the argmax of the LOGITS (as in eval), not of the rounded softmax (F30)
    from torchlogix.layers import LogicConv2d as _C2
    tie_cases = [("residual-init-T1e9", None, 1e9), ("two-ulps-apart-T30", {3: 5.0, 12: 5.0000005}, 30.0),
                 ("tiny-gap-T1", {5: 0.01, 9: 0.010000001}, 1.0), ("large-logits-T1e-3", {2: 40.0, 7: 40.000004}, 1e-3),
                 # logits / temperature overflows the float range: softmax(inf, ...) is NaN unless the maximum is subtracted first
                 ("residual-init-T1e-38", None, 1e-38), ("ordinary-logits-T1.2e-38", {4: 1.5, 11: -0.5, 6: 1.25}, 1.2e-38),
                 # a positive temperature below the smallest positive binary32 number is rounded to 0 when it meets the logits (F65)
                 # every neuron its own logits (the largest logit differs from neuron to neuron and from the tensor's maximum)
                 ("random-logits-T1e-38", "random", 1e-38), ("random-logits-T3e-39", "random", 3e-39),
                 ("residual-init-T1e-46", None, 1e-46), ("ordinary-logits-T1e-300", {4: 1.5, 11: -0.5, 6: 1.25}, 1e-300),
                 ("ordinary-logits-T5e-324", {1: 0.25, 14: 2.0}, 5e-324)]
    for name, logits, tau in tie_cases:
        for layer_kind in ("dense", "conv"):
            torch.manual_seed(ck.seed)
            if layer_kind == "dense":
                l = LogicDense(4, 6, device="cpu", forward_sampling="hard", temperature=tau)
                ws = [l.weight]
                xb = torch.tensor(nets.all_rows(4), dtype=torch.float32)
            else:
                l = _C2(in_dim=(3, 3), device="cpu", channels=1, num_kernels=2, tree_depth=2, receptive_field_size=2, forward_sampling="hard",
                        temperature=tau)
                ws = [w for level in l.tree_weights for w in level]
                xb = torch.tensor(nets.all_rows(9), dtype=torch.float32).reshape(-1, 1, 3, 3)
            if logits == "random":
                with torch.no_grad():
                    for w in ws:
                        w.copy_(torch.randn_like(w) * 3)
            elif logits is not None:
                with torch.no_grad():
                    for w in ws:
                        w.zero_()
                        for g, v in logits.items():
                            w[:, g] = v
            case = {"layer": layer_kind, "param": "raw", "logits": name, "tau": tau}
            ck.case(case, nontrivial=True, kind="near-tie")
            hard_vs_eval(l, xb, case, {"layer": layer_kind, "param": "raw", "what": "hard-vs-eval-near-tie"})
    for rep in range(reps * 3):
        par = "walsh" if rep % 2 else "raw"
        tau = [0.3, 1.0, 4.0][rep % 3]
        torch.manual_seed(ck.seed * 5 + rep)
        l, geo = make_layer(rng, 2, param=par)
        l.temperature = tau
        case = dict(geo, layer="conv2d", param=par, tau=tau)
        ck.case(case, nontrivial=True, kind=f"conv2d-{par}")
        shape = [geo["channels"]] + geo["in_dim"]
        xb = (torch.rand(24, *shape) > 0.5).float()
        import copy
        fresh = copy.deepcopy(l)          # warm-up under 'soft' FIRST on a fresh object, then switch to 'hard'
        fresh.forward_sampling = "soft"
        fresh.train()
        with torch.no_grad():
            fresh(torch.rand(2, *shape))
        fresh.forward_sampling = "hard"
        hard_vs_eval(fresh, xb, dict(case, sequence="fresh object: soft forward, then switch to hard"),
                     {"layer": "conv2d", "param": par, "what": "mode-switch"})
        l.forward_sampling = "hard"
        hard_vs_eval(l, xb, case, {"layer": "conv2d", "param": par, "what": "hard-vs-eval"})
        hard_vs_eval(l, torch.rand(6, *shape), dict(case, inputs="real"), {"layer": "conv2d", "param": par, "what": "hard-vs-eval"})
        l.forward_sampling = "soft"
        l.train()
        with torch.no_grad():
            l(torch.rand(2, *shape))
        l.forward_sampling = "hard"
        hard_vs_eval(l, xb, dict(case, sequence="soft-forward then hard"), {"layer": "conv2d", "param": par, "what": "mode-switch"})
        # gumbel_hard after a soft warm-up: every output on Boolean inputs is Boolean
        l.forward_sampling = "gumbel_hard"
        l.train()
        for draw in range(5):
            with torch.no_grad():
                y = l(xb)
            dist = float(torch.minimum(y.abs(), (y - 1).abs()).max())
            if dist > TOL:
                ck.disagree("gumbel_hard training output on Boolean inputs is not Boolean (a mixture, not a single gate)",
                            dict(case, distance=dist), signature={"layer": "conv2d", "param": par, "what": "gumbel-hard-boolean"})
                break
        ck.count("gumbel_hard_draws", 5)
    # gumbel_hard dense: one gate per neuron per draw
    for par in ("raw", "walsh"):
        n_in, n_out = 3, 12
        l = LogicDense(n_in, n_out, device="cpu", parametrization=par, weight_init="random", forward_sampling="gumbel_hard",
                       temperature=rng.choice([0.5, 1.0, 3.0]))
        rows = nets.all_rows(n_in)
        xb = torch.tensor(rows, dtype=torch.float32)
        ia, ib = l.indices[0].tolist(), l.indices[1].tolist()
        l.train()
        ck.case({"layer": "dense", "param": par, "mode": "gumbel_hard"}, kind="gumbel-hard")
        for draw in range(30 if ck.tier == "quick" else 200):
            with torch.no_grad():
                y = l(xb)
            yr = y.round()
            if not (float((y - yr).abs().max()) <= TOL):
                ck.disagree("gumbel_hard training output on Boolean inputs is not Boolean", {"param": par},
                            signature={"layer": "dense", "param": par, "what": "gumbel-hard-boolean"})
                break
            if par == "raw":
                for i in range(n_out):
                    col = [int(v) for v in yr[:, i].tolist()]
                    ok = any(all(nets.tt(g, r[ia[i]], r[ib[i]]) == c for r, c in zip(rows, col)) for g in range(16))
                    if not ok:
                        ck.disagree("gumbel_hard: a neuron's outputs over the batch are not those of a single gate", {"neuron": i, "column": col},
                                    signature={"layer": "dense", "param": par, "what": "gumbel-hard-single-gate"})
                        break
        ck.count("gumbel_hard_draws", 30)
    # changing the sampling mode never changes what eval mode computes: the eval output of one layer under each of the four modes
    # (set on the live object), three calls each, is one and the same tensor - also for near-tied logits, where a perturbed argmax shows
    from torchlogix.layers import LogicConv2d as _C2e
    for par in ("raw", "walsh"):
        for kind in ("dense", "conv"):
            torch.manual_seed(ck.seed + 41)
            if kind == "dense":
                l = LogicDense(5, 40, device="cpu", parametrization=par, weight_init="random")
                xb = torch.tensor(nets.all_rows(5), dtype=torch.float32)
            else:
                l = _C2e(in_dim=(3, 3), device="cpu", channels=1, num_kernels=6, tree_depth=2, receptive_field_size=2, parametrization=par, weight_init="random")
                xb = torch.tensor(nets.all_rows(9)[::5], dtype=torch.float32).reshape(-1, 1, 3, 3)
            with torch.no_grad():
                for p_ in l.parameters():
                    p_.mul_(0.05)                      # logits / coefficients close together: noise of size 1 would reorder them
            l.eval()
            outs = {}
            for mode in ("soft", "hard", "gumbel_soft", "gumbel_hard"):
                l.forward_sampling = mode
                with torch.no_grad():
                    outs[mode] = [l(xb) for _ in range(3)]
            case = {"layer": kind, "param": par, "what": "eval under every sampling mode"}
            ck.case(case, nontrivial=True, kind="eval-mode-independent")
            base = outs["soft"][0]
            bad = [(m, i) for m, ys in outs.items() for i, y in enumerate(ys) if not torch.equal(y, base)]
            if bad:
                ck.disagree("the eval-mode output of a layer depends on its sampling mode / differs between calls (eval must not sample)",
                            dict(case, mode=bad[0][0], call=bad[0][1], differing=int((outs[bad[0][0]][bad[0][1]] != base).sum())),
                            signature={"layer": kind, "param": par, "what": "eval-depends-on-mode"})
    # hard training = eval AFTER the parameters were rewritten on a live layer that has already been evaluated (an eval-time cache must
    # follow every way of writing a parameter: copy_, .data assignment / indexing / arithmetic, load_state_dict, an optimizer step)
    from harness import protocols
    from torchlogix.layers import LogicConv2d as _LCu, LogicDense as _LDu
    for lname in ("conv2d", "dense"):
        for how in protocols.UPDATES:
            torch.manual_seed(ck.seed + 31)
            if lname == "conv2d":
                lay_u = _LCu(in_dim=(3, 3), device="cpu", channels=1, num_kernels=3, tree_depth=1, receptive_field_size=2,
                             weight_init="random", forward_sampling="hard")
                w_u = lay_u.tree_weights[0][0]
                xu = (torch.rand(32, 1, 3, 3) > 0.5).float()
            else:
                lay_u = _LDu(4, 6, device="cpu", weight_init="random", forward_sampling="hard")
                w_u = lay_u.weight
                xu = (torch.rand(32, 4) > 0.5).float()
            with torch.no_grad():
                lay_u.eval(); lay_u(xu); lay_u.train(); lay_u(xu); lay_u.eval(); lay_u(xu)
            gl_u, rows_u = protocols._new_rows(ck.rng, w_u.shape[0], "raw")
            protocols.apply_update(ck.rng, lay_u, w_u, rows_u, how)
            w_now = lay_u.tree_weights[0][0] if lname == "conv2d" else lay_u.weight
            if nets.own_gate_ids(w_now, "raw") != gl_u:
                continue
            case_u = {"layer": lname, "param": "raw", "update": how, "what": "hard-vs-eval after update"}
            ck.case(case_u, nontrivial=True, kind="update-" + how)
            with torch.no_grad():
                lay_u.eval(); ye_u = lay_u(xu)
                lay_u.train(); yt_u = lay_u(xu)
            if not torch.equal(ye_u, yt_u):
                ck.disagree("after a parameter update on a live layer, hard training output differs from eval output on Boolean inputs",
                            dict(case_u, differing=int((ye_u != yt_u).sum())), observed=float((ye_u - yt_u).abs().max()),
                            signature={"layer": lname, "what": "stale-after-update", "update": how})
    return ck.finish()


def replay(ck, path):
    return run(ck)
