"""Helpers to evaluate model definitions inside Coq (vm_compute) and parse the printed values."""
import ast
import re


def parse_evals(stdout):
    """Return the list of values printed by `Eval vm_compute in ...` commands.
    Values may be nested lists / tuples of integers, booleans and options of those."""
    vals = []
    for m in re.finditer(r"^\s*= (.*?)\n\s*: [^\n]*(?:\n(?=\s*=|\Z)|\n|\Z)", stdout, flags=re.S | re.M):
        vals.append(parse_value(m.group(1)))
    return vals


def parse_value(txt):
    t = re.sub(r"%[A-Za-z_]+", "", txt)
    t = t.replace("\n", " ")
    t = t.replace(";", ",")
    t = re.sub(r"\btrue\b", "True", t)
    t = re.sub(r"\bfalse\b", "False", t)
    t = re.sub(r"\bNone\b", "None", t)
    t = re.sub(r"\bSome\s+", "", t)
    t = re.sub(r"(-?\d+)\s*#\s*(\d+)", r"(\1, \2)", t)
    try:
        return ast.literal_eval(t.strip())
    except Exception as e:
        raise ValueError(f"cannot parse Coq value: {txt[:200]!r}: {e}")


def zlist(xs):
    return "[" + "; ".join(f"({int(x)})" for x in xs) + "]"


def natlist(xs):
    return "[" + "; ".join(str(int(x)) for x in xs) + "]%nat"


def blist(xs):
    return "[" + "; ".join("true" if x else "false" for x in xs) + "]"


def qlit(fr):
    return f"(({fr.numerator}) # {fr.denominator})"
