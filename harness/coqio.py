"""Helpers to evaluate model definitions inside Coq (vm_compute) and parse the printed values."""
import ast
import re


def parse_evals(stdout):
    """Return the list of values printed by `Eval vm_compute in ...` commands.
    Values may be nested lists / tuples of integers, booleans and options of those."""
    vals = []
    for m in re.finditer(r"^\s*= (.*?)\n\s*: [^\n]*(?:\n(?=\s*=|\Z)|\n|\Z)", stdout, flags=re.S | re.M):
        vals.append(parse_value(m.group(1)))
    return vals


def parse_value(txt):
    t = re.sub(r"%[A-Za-z_]+", "", txt)
    t = t.replace("\n", " ")
    t = t.replace(";", ",")
    t = re.sub(r"\btrue\b", "True", t)
    t = re.sub(r"\bfalse\b", "False", t)
    t = re.sub(r"\bNone\b", "None", t)
    t = re.sub(r"\bSome\s+", "", t)
    t = re.sub(r"(-?\d+)\s*#\s*(\d+)", r"(\1, \2)", t)
    try:
        return ast.literal_eval(t.strip())
    except Exception as e:
        raise ValueError(f"cannot parse Coq value: {txt[:200]!r}: {e}")


def zlist(xs):
    return "[" + "; ".join(f"({int(x)})" for x in xs) + "]"


def natlist(xs):
    return "[" + "; ".join(str(int(x)) for x in xs) + "]%nat"


def blist(xs):
    return "[" + "; ".join("true" if x else "false" for x in xs) + "]"


def qlit(fr):
    return f"(({fr.numerator}) # {fr.denominator})"


def rlit(x):
    """Python float -> Coq real literal (exact decimal expansion of the binary64 value would be long; repr round-trips)."""
    s = repr(float(x))
    if s in ("inf", "-inf", "nan"):
        raise ValueError("non-finite value")
    return f"({s})" if s.startswith("-") else s


INTERVAL_HEADER = ("From Coq Require Import Reals List Lra.\nFrom Interval Require Import Tactic.\n"
                   "From TLX Require Import Model.Poly Model.Relax Gen.Ops.\nImport ListNotations.\nLocal Open Scope R_scope.\n")
UNFOLD = ("cbv [mix mix_loop soft_raw softmax rsum gate_values mix_n peval_R peval op map seq combine fold_right fold_left fst snd "
          "sigmoid soft_walsh wform one_hot Nat.eqb nth EXTRA]")


def interval_goals(ck, name, goals, extra_imports="", extra_unfold="", prec=64, timeout=900, pre_tac="idtac"):
    """goals: list of (label, coq_real_expr, observed_float, tol).  Each becomes a lemma
       Rabs (expr - observed) <= tol closed by `interval` and checked by Qed.  Returns list of failed labels."""
    failed = []
    todo = list(goals)
    unfold = UNFOLD.replace("EXTRA", extra_unfold)
    while todo:
        txt = INTERVAL_HEADER + extra_imports
        for k, (label, expr, obs, tol) in enumerate(todo):
            txt += (f"Lemma g{k} : Rabs ({expr} - {rlit(obs)}) <= {rlit(tol)}.\n"
                    f"Proof. {unfold}; {pre_tac}; interval with (i_prec {prec}). Qed.\n")
        rc, out, err = ck.coq_eval(name, txt, timeout=timeout)
        if rc == 0:
            break
        import re
        m = re.search(r"line (\d+)", err)
        if not m:
            ck.broke("correspondence", "interval run", err[-400:])
            return [g[0] for g in todo]
        line = int(m.group(1))
        base = (INTERVAL_HEADER + extra_imports).count("\n")
        k = (line - base - 1) // 2
        if not (0 <= k < len(todo)):
            ck.broke("correspondence", "interval run", err[-400:])
            return [g[0] for g in todo]
        failed.append(todo[k][0])
        todo = todo[k + 1:]
    return failed
