"""C05 — bit-parallel batching is sample-wise; no out-of-bounds access by a call."""
import numpy as np
import torch

from harness import coqio, cparse, nets, compiled, asan
from harness.common import Check
from translate import gatecode as t_gc, wrapper as t_wr

THEOREMS = ["C05_pack_lane", "C05_unpack", "C05_rowwise", "C05_rowwise_dense", "C05_in_bounds", "C05_padding",
            "C05_independent_of_earlier_calls", "C05_buffers_private"]
TRUSTED = [
    "Coq 8.16.1 kernel/coqc (vm_compute only in examples and kernel evaluation of the model); all C05 theorems closed under the global context",
    "translators translate/wrapper.py: token equality of the wrapper f-string with the structure modelled in Model/Wrapper.v; "
    "statement equality of _forward_with_groupsum/_forward_direct/_setup_library_function with the modelled host code",
    "numpy concatenate/reshape/zeros and ctypes argument passing (observed by a recorder replacing lib_fn, not proved)",
    "the wrapper shifts in the unsigned type of the word's width (F34) and converts back to the signed word type (implementation-defined, "
    "modulo 2^W on gcc/clang); the sanitizer run includes the shift checks",
]


def recorder_checks(ck):
    """Replace lib_fn by a recorder: the arrays and len the host passes are those of the model."""
    rng = ck.rng
    for W in (8, 16, 32, 64):
        model = nets.make_dense(rng, 5, [6, 4], k=2)
        net = compiled.build(model, W)
        sizes = list(range(1, 3 * W + 2)) if (ck.tier == "thorough" or W == 8) else \
            sorted({1, 2, W // 2 - 1, W // 2, W // 2 + 1, W - 1, W, W + 1, 2 * W - 1, 2 * W, 2 * W + 3, 3 * W, 3 * W + 1})
        for B in sizes:
            rec = {}

            def fake(x, out, n):
                rec.update(x_size=int(x.size), x_dtype=str(x.dtype), out_size=int(out.size), out_dtype=str(out.dtype),
                           n=int(n), x_tail=int(x.reshape(-1)[B * 5:].sum()) if x.size > B * 5 else 0,
                           contig=bool(x.flags["C_CONTIGUOUS"] and out.flags["C_CONTIGUOUS"]))
            net.lib_fn = fake
            x = np.array([[rng.randrange(2) for _ in range(5)] for _ in range(B)], dtype=bool)
            case = {"kind": "recorder", "W": W, "batch": B}
            ck.case(case, kind="recorder")
            try:
                res = compiled.quiet(net.forward, x)
            except Exception as e:
                ck.disagree("forward raised while preparing the arrays", case, observed=repr(e),
                            signature={"what": "host-raises", "small": bool(2 * B < W)})
                continue
            words = -(-B // W)
            exp = dict(x_size=words * W * 5, x_dtype="bool", out_size=words * W * 2, out_dtype="int32", n=words,
                       x_tail=0, contig=True)
            if rec != exp:
                ck.disagree("host passes arrays that do not cover len words (or non-zero padding)", case,
                            expected=exp, observed=rec, signature={"what": "host-arrays", "small": bool(2 * B < W)})
            if list(res.shape) != [B, 2]:
                ck.disagree("result shape is not (batch, classes)", case, observed=list(res.shape),
                            signature={"what": "host-shape"})


def rowwise_checks(ck):
    rng = ck.rng
    n_models = 3 if ck.tier == "quick" else 6
    for W in (8, 16, 32, 64):
        for mi in range(n_models):
            in_dim = rng.choice([4, 6, 7])
            widths = [rng.randrange(3, 9), rng.choice([4, 6, 8])]
            k = rng.choice([1, 2])
            model = nets.make_dense(rng, in_dim, widths, k=k, flatten=rng.random() < 0.3)
            if mi == n_models - 1:
                # conv -> flatten -> dense x3: buffers that are only partly rewritten per word would leak the previous word's rows
                in_dim, widths, k = 6, [6, 5, 4], 2
                model = nets.make_custom(rng, (1, 2, 3), [("conv", dict(K=2, depth=1, rf=2, pad=1)), ("flatten",), ("dense", 6), ("dense", 5),
                                                          ("dense", 4), ("gs", 2)])
            if mi == 0:
                # identity conv -> padded, overlapping OR pooling -> flatten -> dense: a pooled cell whose window starts in the padding is
                # the classic place where a cell is only OR-ed into, i.e. keeps what the previous word / the previous call left there
                # (the buffers of logic_net persist per thread)
                in_dim, widths, k = 6, [4], 2
                model = nets.make_custom(rng, (1, 2, 3), [("conv", dict(K=1, depth=1, rf=1, identity=True)), ("pool", dict(k=2, s=1, p=1)), ("flatten",),
                                                          ("dense", 4), ("gs", 2)])
            spec = nets.extract(model)
            net = compiled.build(model, W)
            compiled.compile_net(net, opt=rng.randrange(4))
            base = [[rng.randrange(2) for _ in range(in_dim)] for _ in range(3 * W + 1)]
            # bright rows first, dark rows after: stale ones left by an earlier call or an earlier word show in the dark rows
            base[0], base[1], base[2] = [1] * in_dim, [0] * in_dim, [0] * in_dim
            base[W:W + 2] = [[0] * in_dim, [0] * in_dim]
            alone = [compiled.forward(net, [r])[0] for r in base]
            ref = [nets.counts(nets.eval_spec(spec, r), k) for r in base]
            for i, (a, r) in enumerate(zip(alone, ref)):
                if a != r:
                    ck.disagree("single-row batch differs from the reference circuit", {"W": W, "row": base[i]},
                                expected=r, observed=a, signature={"what": "alone-vs-ref", "W": W})
            sizes = list(range(1, 3 * W + 2)) if (W == 8 or ck.tier == "thorough") else \
                sorted({1, 2, 3, W // 2 - 1, W // 2, W - 1, W, W + 1, 2 * W, 2 * W + 3, 3 * W + 1})
            for B in sizes:
                for trial in range(2 if ck.tier == "quick" else 4):
                    idxs = [rng.randrange(len(base)) for _ in range(B)] if trial else list(range(B))
                    probe = rng.randrange(len(base))
                    pos = rng.randrange(B)
                    idxs[pos] = probe
                    rows = [base[i] for i in idxs]
                    case = {"kind": "rowwise", "W": W, "batch": B, "probe_pos": pos, "in_dim": in_dim, "widths": widths, "k": k}
                    ck.case(dict(case, rows=idxs), kind="rowwise")
                    try:
                        got = compiled.forward(net, rows)
                    except Exception as e:
                        ck.disagree("forward raised on a valid batch", case, observed=repr(e),
                                    signature={"what": "forward-raises", "small": bool(2 * B < W)})
                        continue
                    if len(got) != B:
                        ck.disagree("number of returned rows differs from the batch size", case, observed=len(got),
                                    signature={"what": "rows"})
                        continue
                    for j, i in enumerate(idxs):
                        if got[j] != alone[i]:
                            ck.disagree("result of a sample depends on batch size / position / other rows",
                                        dict(case, row=base[i], pos=j, others=idxs), expected=alone[i], observed=got[j],
                                        signature={"what": "rowwise", "W": W})
                            break
    # results already handed out stay what they were when the handle is called again (same and different padded sizes)
    for W in (8, 64):
        model = nets.make_dense(rng, 5, [6, 6], k=rng.choice([1, 2, 3]))
        net = compiled.build(model, W)
        compiled.compile_net(net)
        for b1, b2 in ((3, 5), (W, W), (W + 1, 2 * W), (2, W + 2)):
            r1 = [[rng.randrange(2) for _ in range(5)] for _ in range(b1)]
            r2 = [[rng.randrange(2) for _ in range(5)] for _ in range(b2)]
            ck.case({"kind": "aliasing", "W": W, "batches": [b1, b2]}, kind="aliasing")
            msg = compiled.alias_check(net, r1, r2)
            if msg:
                ck.disagree("a result depends on later calls: " + msg, {"W": W, "batches": [b1, b2]}, signature={"what": "aliasing", "W": W})
        # no GroupSum: direct path
        m2 = torch.nn.Sequential(*list(model)[:-1])
        net2 = compiled.build(m2, W)
        compiled.compile_net(net2)
        msg = compiled.alias_check(net2, [[rng.randrange(2) for _ in range(5)] for _ in range(4)], [[rng.randrange(2) for _ in range(5)] for _ in range(4)])
        ck.case({"kind": "aliasing-direct", "W": W}, kind="aliasing")
        if msg:
            ck.disagree("a result depends on later calls (no GroupSum): " + msg, {"W": W}, signature={"what": "aliasing", "W": W})
    # same probe rows under different word sizes
    model = nets.make_dense(rng, 6, [7, 6], k=3)
    rows = [[rng.randrange(2) for _ in range(6)] for _ in range(37)]
    outs = {}
    for W in (8, 16, 32, 64):
        net = compiled.build(model, W)
        compiled.compile_net(net)
        outs[W] = compiled.forward(net, rows)
        ck.case({"kind": "wordsize", "W": W}, kind="wordsize")
    for W in (16, 32, 64):
        if outs[W] != outs[8]:
            ck.disagree("result depends on the word size", {"W": W}, signature={"what": "wordsize"})
    # a batch that fills its machine words exactly (no padding row is appended) handed over in another memory layout: every row must
    # come out as in the C-ordered batch and as in the batch with one row more (a host path that skips the padding copy must still
    # bring the rows into sample-major order)
    import numpy as _np
    import torch as _torch
    for W in (8, 16, 32, 64):
        net = compiled.build(model, W)
        compiled.compile_net(net)
        rows_w = [[rng.randrange(2) for _ in range(6)] for _ in range(2 * W)]
        base = compiled.forward(net, rows_w)
        longer = compiled.forward(net, rows_w + [[1, 0, 1, 0, 1, 0]])[:2 * W]
        xw = _np.array(rows_w, dtype=bool)
        variants = {"fortran": lambda: _np.asfortranarray(xw), "transposed-view": lambda: _np.ascontiguousarray(xw.T).T,
                    "torch-transposed": lambda: _torch.tensor(xw.T.copy()).t(), "one-row-more": None}
        for vname, mk in variants.items():
            case = {"kind": "exact-words-layout", "W": W, "batch": 2 * W, "variant": vname}
            ck.case(case, nontrivial=True, kind="exact-words-layout")
            try:
                got = longer if mk is None else [[int(v) for v in r] for r in compiled.quiet(net.forward, mk()).tolist()]
            except Exception as e:
                continue                                  # a refused layout is not a wrong result
            if got != [[int(v) for v in r] for r in base]:
                bad = next(i for i, (a, b) in enumerate(zip(got, base)) if a != [int(v) for v in b])
                ck.disagree("a sample's result depends on the memory layout of a batch that fills its machine words exactly",
                            dict(case, row_index=bad, row=rows_w[bad]), expected=[int(v) for v in base[bad]], observed=got[bad],
                            signature={"what": "exact-words-layout", "variant": vname})
                break


def model_vs_impl(ck):
    """Kernel evaluation of the Coq host+wrapper model on the parsed program vs the real forward."""
    rng = ck.rng
    txt = ("From Coq Require Import ZArith List Bool. Import ListNotations.\n"
           "From TLX Require Import Model.CLang Model.Wrapper.\n")
    plan = []
    for idx, (W, B) in enumerate([(8, 1), (8, 3), (8, 9), (16, 7), (16, 17), (32, 5), (64, 3)]):
        in_dim, widths, k = 3, [4, 4], 2
        model = nets.make_dense(rng, in_dim, widths, k=k)
        net = compiled.build(model, W)
        p = cparse.parse_unit(net.get_c_code(), W)
        p["sizes"][0], p["sizes"][1] = in_dim, widths[-1]
        rows = [[rng.randrange(2) for _ in range(in_dim)] for _ in range(B)]
        compiled.compile_net(net)
        got = compiled.forward(net, rows)
        txt += f"Definition p{idx} : prog := {cparse.prog_coq(p)}.\n"
        txt += (f"Eval vm_compute in forward_with_groupsum {W} {in_dim} {widths[-1]} {k} (execZ {W} p{idx}) ["
                + "; ".join(coqio.blist(r) for r in rows) + "].\n")
        plan.append((W, B, rows, got))
    rc, out, err = ck.coq_eval("c05host", txt)
    if rc != 0:
        ck.broke("correspondence", "kernel evaluation of the host model", err[-600:])
        return
    for (W, B, rows, got), mv in zip(plan, coqio.parse_evals(out)):
        ck.case({"kind": "model-vs-impl", "W": W, "batch": B, "rows": rows}, kind="model-vs-impl")
        if mv is None or [list(r) for r in mv] != got:
            ck.broke("correspondence", "Model/Wrapper.forward_with_groupsum",
                     f"W={W} batch={B}: model {mv} implementation {got}")


def sanitizer_runs(ck):
    rng = ck.rng
    combos = [(8, "gcc", 0), (16, "gcc", 2), (32, "clang", 0), (64, "gcc", 2)] if ck.tier == "quick" else \
        [(W, cc, o) for W in (8, 16, 32, 64) for cc in ("gcc", "clang") for o in (0, 2)]
    for W, cc, opt in combos:
        in_dim, widths, k = 5, [7, 6], rng.choice([1, 2, 3])
        model = nets.make_dense(rng, in_dim, widths, k=k)
        spec = nets.extract(model)
        net = compiled.build(model, W)
        text = net.get_c_code()
        try:
            exe = asan.build(text, ck.scratch, f"san{W}{cc}{opt}", "apply", W, compiler=cc, opt=opt)
        except Exception as e:
            ck.broke("correspondence", "sanitizer driver build", repr(e))
            continue
        for words in (1, 2, 3):
            rows = [[rng.randrange(2) for _ in range(in_dim)] for _ in range(words * W)]
            flat = [b for r in rows for b in r]
            rc, vals, err = asan.run_apply(exe, ck.scratch, f"san{W}", flat, words, in_dim, W, k)
            case = {"kind": "sanitizer", "W": W, "compiler": cc, "opt": opt, "words": words, "k": k}
            ck.case(case, kind="sanitizer")
            if rc != 0:
                ck.disagree("AddressSanitizer/UBSan reports an error in apply_logic_net", case, observed=err[-600:],
                            signature={"what": "sanitizer"})
                continue
            exp = [c for r in rows for c in nets.counts(nets.eval_spec(spec, r), k)]
            if vals != exp:
                ck.disagree("sanitized build returns wrong counts", case, signature={"what": "sanitizer-values"})


def run(ck: Check):
    ck.trusted = TRUSTED
    ck.rule = ("recorder in place of lib_fn for batch sizes 1..3W+1 (all for W=8, boundary sizes for 16/32/64; all in thorough); "
               "real forward of compiled random dense models on sub-batches / permutations of one base batch with a probe "
               "row at a random position, each row compared with its single-row result and the reference circuit; same "
               "rows under the four word sizes; kernel evaluation of the Coq host+wrapper model on parsed programs vs real "
               "forward; ASan+UBSan standalone driver. Non-trivial: batch with at least 2 rows or a padding row. Distinct = "
               "canonical JSON of the case.")
    ck.translate("GateCode", t_gc.gen_gatecode)
    ck.translate("WrapperParams", t_wr.gen_wrapper_params)
    ck.translate("HostSrc", t_wr.gen_host)
    ck.prove("Props/C05", THEOREMS)
    recorder_checks(ck)
    if ck.violations:
        ck.notes.append("host passes wrong arrays: real calls skipped (they would corrupt the heap of this process)")
        sanitizer_runs(ck)
        return ck.finish()
    rowwise_checks(ck)
    model_vs_impl(ck)
    sanitizer_runs(ck)
    return ck.finish()


def replay(ck, path):
    return run(ck)
