"""C01 — compiled dense logic network equals the eval-mode PyTorch model."""
import os

import numpy as np
import torch

from harness import protocols, coqio, cparse, nets, compiled
from harness.common import Check
from translate import gatecode as t_gc, wrapper as t_wr

THEOREMS = ["C01_gate_templates", "C01_logic_net", "C01_counts", "C01_direct", "C01_argmax"]
TRUSTED = [
    "Coq 8.16.1 kernel/coqc; vm_compute for the 16x4 template table and for the per-model kernel evaluations; no native_compute",
    "all C01 theorems are closed under the global context (no axioms)",
    "translators translate/gatecode.py (gate templates) and translate/wrapper.py (wrapper template token-equality + width/group-size expressions)",
    "hand-written Gallina generator Model/GenDense.v is tied to get_c_code() by parsing the emitted text of every sampled "
    "model (harness/cparse.py, strict) and checking syntactic equality with gen_dense inside Coq; Model/Wrapper.v is tied by "
    "token equality of the wrapper template and by real runs",
    "gcc/clang implement the straight-line fragment as Model/CLang.v models it (two's complement ~ & | ^, narrowing store = wrap)",
    "PyTorch eval-mode forward of LogicDense/GroupSum = reference circuit: exercised on every sampled model, not proved",
]


def gen_cases(ck):
    rng = ck.rng
    cases = []
    Ws = [8, 16, 32, 64]
    # systematic: every gate id as a whole layer
    for g in range(16):
        cases.append(dict(in_dim=4, widths=[6, 4], gates=[[g] * 6, [rng.randrange(16) for _ in range(4)]],
                          W=Ws[g % 4], k=2, flatten=False, opt=g % 4, tag=f"gate{g}"))
    # depth 1..7 (buffer alternation beyond three layers), with and without flatten / groupsum
    for depth in range(1, 8):
        for flat in (False, True):
            widths = [rng.choice([3, 4, 5, 6, 8]) for _ in range(depth)]
            k = rng.choice([None, 1, widths[-1]] + [d for d in (2, 3) if widths[-1] % d == 0])
            cases.append(dict(in_dim=rng.choice([3, 5, 7]), widths=widths, W=rng.choice(Ws), k=k, flatten=flat,
                              opt=rng.randrange(4), tag=f"depth{depth}{'f' if flat else ''}"))
    # the same layer OBJECT at several positions of the container (in_dim = out_dim): every application must be compiled
    for pattern, flat in (([0, 0], False), ([0, 1, 0], False), ([0, 0, 0, 1], True), ([1, 0, 1, 0, 1], False)):
        cases.append(dict(in_dim=5, widths=[5, 5], W=rng.choice(Ws), k=rng.choice([None, 1, 5]), flatten=flat, opt=rng.randrange(4),
                          tag="shared", shared=pattern))
    n_rand = 12 if ck.tier == "quick" else 400
    for _ in range(n_rand):
        depth = rng.randrange(1, 6)
        widths = [rng.randrange(1, 12) for _ in range(depth)]
        ks = [None] + [d for d in range(1, widths[-1] + 1) if widths[-1] % d == 0]
        cases.append(dict(in_dim=rng.randrange(1, 9), widths=widths, W=rng.choice(Ws), k=rng.choice(ks),
                          flatten=rng.random() < 0.3, opt=rng.randrange(4), tag="random"))
    if ck.tier == "thorough":
        for _ in range(30):
            depth = rng.randrange(2, 5)
            widths = [rng.randrange(20, 70) for _ in range(depth - 1)] + [rng.choice([10, 20, 33, 64])]
            cases.append(dict(in_dim=rng.randrange(9, 17), widths=widths, W=rng.choice(Ws), k=rng.choice([1, None]),
                              flatten=rng.random() < 0.3, opt=rng.randrange(4), tag="wide"))
    return cases


def batch_sizes(W, n):
    return [b for b in (1, W // 2 - 1, W // 2, W - 1, W, W + 1, 2 * W + 3) if b >= 1]


def run_case(ck, c, idx, coq_items):
    rng = ck.rng
    torch.manual_seed(ck.seed * 7919 + idx)
    model = nets.make_dense(rng, c["in_dim"], c["widths"], gates=c.get("gates"), flatten=c["flatten"], k=c["k"],
                            tau=rng.choice([1.0, 2.0, 0.5]) if c["k"] else 1.0,
                            connections=rng.choice(["random", "unique"]))
    if c.get("shared"):
        mods = list(model)
        head = [m for m in mods if isinstance(m, torch.nn.Flatten)]
        dense = [m for m in mods if type(m).__name__ == "LogicDense"]
        tail = [m for m in mods if type(m).__name__ == "GroupSum"]
        model = torch.nn.Sequential(*head, *[dense[i] for i in c["shared"]], *tail)
        c = dict(c, widths=[c["widths"][i] for i in c["shared"]])
    spec = nets.extract(model)
    W = c["W"]
    sig = {"W": W, "flatten": c["flatten"], "k": c["k"], "depth": len(c["widths"])}
    case = {"in_dim": c["in_dim"], "widths": c["widths"], "W": W, "k": c["k"], "flatten": c["flatten"],
            "opt": c["opt"], "gates": [l["g"] for l in spec["layers"] if l["kind"] == "dense"],
            "wiring": [[l["a"], l["b"]] for l in spec["layers"] if l["kind"] == "dense"]}
    gset = {g for l in case["gates"] for g in l}
    ck.case(case, nontrivial=len(gset - {3}) >= 2, kind=c["tag"].rstrip("0123456789f") or c["tag"])
    ck.count(f"W{W}")
    ck.count(f"opt{c['opt']}")
    # --- emitted text vs generator model (checked in Coq)
    net = compiled.build(model, W)
    text = net.get_c_code()
    if net.get_c_code() != text:
        ck.disagree("generating the C code twice from one CompiledLogicNet gives two different programs", case,
                    signature=dict(sig, what="regenerate"))
    try:
        p = cparse.parse_unit(text, W)
        p["sizes"][0] = c["in_dim"]
        p["sizes"][1] = c["widths"][-1]
        p["text"] = text
        if c["k"]:
            h = p["holes"]
            g = c["widths"][-1] // c["k"]
            exp = {"in_size": c["in_dim"], "n_out": c["widths"][-1], "k": c["k"], "g": g, "W": W,
                   "width": (g).bit_length() if g > 0 else 0}
            # exact ceil(log2(g+1)) == bit_length(g)
            if h != exp:
                ck.disagree("wrapper parameters differ from the modelled ones", dict(case, holes=h, expected=exp),
                            signature={"what": "wrapper-holes"})
        elif p["holes"] is not None:
            ck.broke("correspondence", "wrapper", "wrapper emitted although the model has no GroupSum")
        coq_items.append((idx, nets.dense_model_coq(spec), cparse.prog_coq(p), p, case))
    except cparse.ParseError as e:
        ck.broke("correspondence", "parse emitted C", f"case {idx}: {e}")
        p = None
    # --- real library vs eval-mode torch vs reference circuit
    try:
        compiled.compile_net(net, opt=c["opt"])
    except Exception as e:
        ck.disagree("compilation of a supported dense model failed", case, observed=repr(e), signature=dict(sig, what="compile"))
        return
    n = c["in_dim"]
    rows_all = nets.all_rows(n) if n <= (8 if ck.tier == "quick" else 12) else \
        [[rng.randrange(2) for _ in range(n)] for _ in range(256)] + [[0] * n, [1] * n]
    ref = [nets.eval_spec(spec, r) for r in rows_all]
    tout = compiled.torch_eval(model, rows_all)
    for bs in batch_sizes(W, len(rows_all)) + [len(rows_all)]:
        if bs > len(rows_all):
            rows = [rows_all[i % len(rows_all)] for i in range(bs)]
            off = 0
        else:
            off = rng.randrange(0, len(rows_all) - bs + 1)
            rows = rows_all[off:off + bs]
        try:
            got = compiled.forward(net, rows)
        except Exception as e:
            ck.disagree("forward raised on a valid Boolean batch", dict(case, batch=bs), observed=repr(e),
                        signature=dict(sig, what="forward-raises"))
            continue
        for r_i, row in enumerate(rows):
            src = (off + r_i) % len(rows_all)
            bits = ref[src]
            exp = nets.counts(bits, c["k"]) if c["k"] else bits
            tt_ = tout[src].tolist()
            tau = spec["tau"] if c["k"] else 1.0
            texp = [round(v * tau) for v in tt_]
            if [float(v) * 1.0 for v in texp] != [v * tau for v in tt_] and max(abs(v * tau - t) for v, t in zip(tt_, texp)) > 1e-4:
                ck.disagree("eval-mode output times tau is not an integer count", dict(case, row=row), observed=tt_,
                            signature=dict(sig, what="torch-nonint"))
            if texp != exp:
                ck.disagree("eval-mode PyTorch model differs from the reference circuit", dict(case, row=row),
                            expected=exp, observed=texp, signature=dict(sig, what="torch-vs-ref"))
            if got[r_i] != texp:
                ck.disagree("compiled library differs from the eval-mode PyTorch model", dict(case, row=row, batch=bs, pos=r_i),
                            expected=texp, observed=got[r_i], signature=dict(sig, what="so-vs-torch"))
                return
            if c["k"] and int(np.argmax(got[r_i])) != int(torch.argmax(tout[src])):
                ck.disagree("argmax differs", dict(case, row=row), signature=dict(sig, what="argmax"))
        ck.count("rows_compared", len(rows))
    # --- the same batch in other containers / memory layouts
    base = compiled.forward(net, rows_all)
    for vname, res in compiled.forward_variants(net, rows_all).items():
        ck.count("input_variant_batches")
        if isinstance(res, Exception):
            ck.disagree("forward raised on a valid Boolean batch given in another container / layout", dict(case, variant=vname),
                        observed=repr(res)[:200], signature=dict(sig, what="variant-raises", variant=vname))
        elif res != [[int(v) for v in r] for r in base]:
            bad = next(i for i, (a, b) in enumerate(zip(res, base)) if a != [int(v) for v in b])
            ck.disagree("result depends on the container / memory layout of the Boolean batch", dict(case, variant=vname, row=rows_all[bad]),
                        expected=base[bad], observed=res[bad], signature=dict(sig, what="variant", variant=vname))
    return


def coq_compare(ck, items):
    """One coqc run: for every sampled model, wf && prog_eqb parsed (gen_dense m), evaluated by the kernel."""
    if not items:
        return
    for start in range(0, len(items), 60):
        chunk = items[start:start + 60]
        txt = ("From Coq Require Import ZArith List Bool. Import ListNotations.\n"
               "From TLX Require Import Model.CLang Model.Netlist Model.GenDense.\n")
        for idx, mtxt, ptxt, _, _ in chunk:
            txt += f"Definition m{idx} : dense_model := {mtxt}.\nDefinition p{idx} : prog := {ptxt}.\n"
        txt += "Eval vm_compute in [" + "; ".join(
            f"(wf_dense_model m{idx}, prog_eqb p{idx} (gen_dense m{idx}), "
            f"match first_diff (body p{idx}) (body (gen_dense m{idx})) 0 with Some d => Z.of_nat d | None => (-1)%Z end)"
            for idx, *_ in chunk) + "].\n"
        # kernel evaluation of the parsed program on words, to be compared with the real library
        rc, out, err = ck.coq_eval("c01cmp", txt)
        if rc != 0:
            ck.broke("correspondence", "coq comparison", err[-600:])
            continue
        vals = coqio.parse_evals(out)[0]
        for (idx, _, _, p, case), (wf, eq, d) in zip(chunk, vals):
            ck.count("programs_compared_in_coq")
            if not wf:
                ck.broke("correspondence", "wf_dense_model", f"case {idx} not well-formed in the model: {case}")
            if not eq:
                where = p["stmt_lines"][d] if 0 <= d < len(p["stmt_lines"]) else "sizes/length"
                ck.broke("correspondence", "gen_dense", f"emitted text of case {idx} differs from the generator model at "
                         f"statement {d}: {where!r}; sizes {p['sizes']}; case {case}")


def kernel_exec_vs_so(ck, items):
    """Tie of Model/CLang.exec to gcc: run parsed programs on random words in the kernel and in the real library."""
    rng = ck.rng
    sel = items[:: max(1, len(items) // (6 if ck.tier == "quick" else 40))][:40]
    txt = ("From Coq Require Import ZArith List Bool. Import ListNotations.\nFrom TLX Require Import Model.CLang.\n")
    plan = []
    for idx, _, ptxt, p, case in sel:
        W = case["W"]
        inps = [[cparse.wrapW(rng.getrandbits(W), W) for _ in range(p["sizes"][0])] for _ in range(3)]
        txt += f"Definition q{idx} : prog := {ptxt}.\n"
        txt += f"Eval vm_compute in map (execZ {W} q{idx}) [" + "; ".join(coqio.zlist(i) + "%Z" for i in inps) + "].\n"
        plan.append((idx, p, case, inps))
    rc, out, err = ck.coq_eval("c01exec", txt)
    if rc != 0:
        ck.broke("correspondence", "kernel exec", err[-600:])
        return
    vals = coqio.parse_evals(out)
    for (idx, p, case, inps), mv in zip(plan, vals):
        W = case["W"]
        # rebuild the same text and compile it standalone
        so = os.path.join(ck.scratch, f"ke{idx}.so")
        try:
            lib = compiled.compile_text(p["text"], so, opt=case["opt"])
        except Exception as e:
            ck.broke("correspondence", "standalone compile", repr(e))
            continue
        for inp, m in zip(inps, mv):
            got = compiled.call_logic_net(lib, W, inp, p["sizes"][1])
            ck.count("kernel_exec_vs_gcc")
            if m is None or list(m) != got:
                ck.broke("correspondence", "Model/CLang.exec vs gcc", f"case {idx} W={W} input {inp}: model {m} library {got}")


def logit_resolution(ck):
    """The gate of a raw neuron is the largest LOGIT (what eval mode uses).  Anything that extracts gates from a derived quantity -
    softmax(logits / temperature), probabilities after rounding - picks another gate when two logits differ by less than the derived
    quantity resolves, or when the layer's temperature is so large that every probability rounds to 1/16.  Models built with extreme
    (legal) temperatures and with near-tied logits whose larger entry has the higher gate number; exhaustive inputs, two word sizes."""
    import torch
    from torchlogix.layers import LogicDense, GroupSum
    rng = ck.rng
    cfgs = [("temperature-1e9", 1e9, None), ("temperature-1e-30", 1e-30, None), ("near-tie-1e-8", 1.0, (0.0, 1e-8)),
            ("near-tie-one-ulp", 1.0, (5.0, 5.0000005)), ("near-tie-T30", 30.0, (2.0, 2.000001))]
    for name, tau, tie in cfgs:
        for W in (8, 64):
            torch.manual_seed(ck.seed + 21)
            layers = [LogicDense(6, 10, device="cpu", weight_init="random", temperature=tau),
                      LogicDense(10, 9, device="cpu", weight_init="random", temperature=tau),
                      LogicDense(9, 8, device="cpu", weight_init="random", temperature=tau)]
            if tie is not None:
                with torch.no_grad():
                    for l in layers:
                        for r in range(l.weight.shape[0]):
                            lo, hi = sorted(rng.sample(range(16), 2))
                            l.weight[r].fill_(-4.0)
                            l.weight[r, lo] = tie[0]
                            l.weight[r, hi] = tie[1]
            model = torch.nn.Sequential(*layers, GroupSum(2, 1.0, device="cpu"))
            case = {"kind": "logit-resolution", "name": name, "W": W, "temperature": tau}
            ck.case(case, nontrivial=True, kind="logit-resolution")
            rows = nets.all_rows(6)
            exp = [[int(round(v)) for v in r] for r in compiled.torch_eval(model, rows).tolist()]
            try:
                net = compiled.build(model, W)
                compiled.compile_net(net)
                got = [[int(v) for v in r] for r in compiled.forward(net, rows)]
            except Exception as e:
                ck.disagree("a dense model with legal temperature / logits could not be compiled", case, observed=repr(e)[:200],
                            signature={"what": "logit-resolution", "kind": "error"})
                continue
            if got != exp:
                j = next(i for i in range(len(rows)) if got[i] != exp[i])
                ids = [int(a != b) for l in layers for a, b in zip(l.get_gate_ids().tolist(), l.weight.argmax(-1).tolist())]
                ck.disagree("compiled library differs from the eval-mode PyTorch model (gates taken from rounded probabilities instead of the logits)",
                            dict(case, row=rows[j], differing_rows=sum(1 for a, b in zip(got, exp) if a != b), reported_gate_ids_differing=sum(ids)),
                            expected=exp[j], observed=got[j], signature={"what": "logit-resolution", "kind": "wrong"})


def run(ck: Check):
    ck.trusted = TRUSTED
    ck.rule = ("systematic then random dense models (every gate id as a whole layer; depth 1..7 with and without leading "
               "Flatten; every word size; opt levels 0..3; GroupSum k or none; unique/random wiring with injected self "
               "pairs); exhaustive Boolean inputs when in_dim <= 8 (quick) / 12 (thorough) else 258 rows; batch sizes "
               "1, W/2-1, W/2, W-1, W, W+1, 2W+3 and the whole input set. Non-trivial: at least two gate ids other than "
               "pass-through (3) occur. Distinct = canonical JSON of (architecture, gates, wiring, W, k, opt).")
    ck.translate("GateCode", t_gc.gen_gatecode)
    ck.translate("WrapperParams", t_wr.gen_wrapper_params)
    ck.prove("Props/C01", THEOREMS)
    items = []
    for idx, c in enumerate(gen_cases(ck)):
        before = len(items)
        run_case(ck, c, idx, items)
    # keep the text for the standalone compile
    coq_compare(ck, items)
    kernel_exec_vs_so(ck, items)
    # a fresh compilation follows the CURRENT logits whatever mechanism changed them (nothing memoised in the layer goes stale)
    protocols.dense_protocol(ck, "raw", "")
    logit_resolution(ck)
    return ck.finish()


def replay(ck, path):
    return run(ck)
