"""Shared machinery for the per-property checks (see DESIGN.md section 2 and 5).

A check is a Python function `run(ck)` receiving a `Check` object.  It
  1. regenerates the Coq files that are translated from /repo   (ck.translate)
  2. rebuilds the property's theorems with a full .vo build      (ck.prove)
  3. runs the correspondence between model and implementation    (ck.case / ck.disagree)
  4. lets `ck.finish()` decide, print VIOLATION / KNOWN-FINDING lines and write evidence.
"""
import fcntl
import hashlib
import json
import os
import random
import re
import shutil
import subprocess
import sys
import time
import traceback

VERIF = os.path.dirname(os.path.dirname(os.path.abspath(__file__)))
REPO = os.environ.get("VERIF_REPO", "/repo")
SRC = os.path.join(REPO, "src", "torchlogix")
COQ = os.path.join(VERIF, "coq")
GEN = os.path.join(COQ, "Gen")
EVID = os.path.join(VERIF, "evidence")
REPLAYS = os.path.join(VERIF, "replays")
LOCK = os.path.join(VERIF, ".build.lock")

# Axioms that may appear under a property theorem: all declared by Coq's standard
# library (Reals and classical logic); none is declared in /verif.
ALLOWED_AXIOMS = {
    "ClassicalDedekindReals.sig_forall_dec",
    "ClassicalDedekindReals.sig_not_dec",
    "FunctionalExtensionality.functional_extensionality_dep",
    "Classical_Prop.classic",
    "functional_extensionality_dep",
    "classic",
    "sig_forall_dec",
    "sig_not_dec",
}

FORBIDDEN_RE = re.compile(
    r"\b(Admitted|admit|Axiom|Axioms|Parameter|Parameters|Conjecture|Conjectures|"
    r"Admit Obligations|Unset Guard Checking|Unset Positivity Checking|"
    r"Unset Universe Checking|bypass_check|type-in-type|impredicative-set)\b")


class TranslatorFailed(Exception):
    pass


def repo_head():
    try:
        return subprocess.run(["git", "-C", REPO, "rev-parse", "HEAD"], capture_output=True,
                              text=True).stdout.strip()
    except Exception:
        return "unknown"



def jsafe(obj):
    """JSON has no NaN / Infinity literals: floats that are not finite are written as strings."""
    if isinstance(obj, float):
        return obj if obj == obj and abs(obj) != float("inf") else repr(obj)
    if isinstance(obj, dict):
        return {str(k): jsafe(v) for k, v in obj.items()}
    if isinstance(obj, (list, tuple)):
        return [jsafe(v) for v in obj]
    return obj

def canon(obj):
    return json.dumps(jsafe(obj), sort_keys=True, separators=(",", ":"), default=str)


class BuildLock:
    """Re-entrant within a process: translate + prove of one check run under one lock so that another
    check (possibly against another repository tree) cannot swap the generated files in between."""
    depth = 0
    f = None

    def __enter__(self):
        if BuildLock.depth == 0:
            BuildLock.f = open(LOCK, "w")
            fcntl.flock(BuildLock.f, fcntl.LOCK_EX)
        BuildLock.depth += 1
        return self

    def __exit__(self, *a):
        BuildLock.depth -= 1
        if BuildLock.depth == 0:
            fcntl.flock(BuildLock.f, fcntl.LOCK_UN)
            BuildLock.f.close()
            BuildLock.f = None


def hold_build_lock():
    BuildLock().__enter__()


def release_build_lock():
    while BuildLock.depth > 0:
        BuildLock().__exit__()


def ensure_makefile():
    mk = os.path.join(COQ, "Makefile")
    cp = os.path.join(COQ, "_CoqProject")
    if (not os.path.exists(mk)) or os.path.getmtime(mk) < os.path.getmtime(cp):
        subprocess.run(["coq_makefile", "-f", "_CoqProject", "-o", "Makefile"], cwd=COQ,
                       check=True, capture_output=True)


def write_poison(path, why):
    """A generated file whose translator failed: anything that imports it fails to build (fail-closed)."""
    txt = "(* TRANSLATOR FAILED: " + why.replace("*)", "* )")[:600] + " *)\nDefinition translator_failed : False := I.\n"
    old = open(path).read() if os.path.exists(path) else None
    if old != txt:
        with open(path, "w") as f:
            f.write(txt)


def forbidden_scan():
    """Gate: no Admitted/Axiom/... anywhere in the development (comments stripped)."""
    bad = []
    for root, _, files in os.walk(COQ):
        for fn in files:
            if not fn.endswith(".v"):
                continue
            p = os.path.join(root, fn)
            try:
                txt = open(p).read()
            except FileNotFoundError:
                # a temporary Cases/*.v file of another check running at the same time was removed between listing and reading;
                # the development proper (Model/ Proofs/ Props/ Gen/) is only written under the build lock this scan runs in
                if os.path.basename(root) == "Cases":
                    continue
                raise
            txt = strip_coq_comments(txt)
            for m in FORBIDDEN_RE.finditer(txt):
                bad.append(f"{os.path.relpath(p, COQ)}: {m.group(0)}")
    return bad


def strip_coq_comments(txt):
    out = []
    depth = 0
    i = 0
    n = len(txt)
    instr = False
    while i < n:
        if depth == 0 and txt[i] == '"':
            instr = not instr
            out.append(txt[i]); i += 1; continue
        if not instr and txt.startswith("(*", i):
            depth += 1; i += 2; continue
        if not instr and depth > 0 and txt.startswith("*)", i):
            depth -= 1; i += 2; continue
        if depth == 0:
            out.append(txt[i])
        i += 1
    return "".join(out)


def parse_assumptions(log):
    """Split coqc output into [(theorem, [axiom names] or [] when closed)]."""
    res = []
    # our Props files print a marker line before every Print Assumptions
    blocks = re.split(r"^\s*=\s*\"PA:([A-Za-z0-9_']+)\"(?:%string)?\s*\n\s*:\s*string\s*$", log, flags=re.M)
    # blocks = [pre, name1, text1, name2, text2...]
    for k in range(1, len(blocks), 2):
        name, text = blocks[k], blocks[k + 1]
        if "Closed under the global context" in text.split("= \"PA:")[0]:
            res.append((name, []))
            continue
        axs = []
        m = re.search(r"Axioms:\s*\n(.*)", text, flags=re.S)
        if m:
            for line in m.group(1).splitlines():
                mm = re.match(r"^([A-Za-z_][A-Za-z0-9_.']*)\s*(:|$)", line)
                if mm:
                    axs.append(mm.group(1))
                elif line.strip() == "" :
                    continue
        res.append((name, axs if axs else ["<unparsed>"]))
    return res


class Check:
    def __init__(self, pid, tier="quick", seed=0, level="proof"):
        self.pid = pid
        self.tier = tier
        self.seed = seed
        self.level = level
        self.t0 = time.time()
        self.rng = random.Random(seed * 1000003 + int(hashlib.sha1(pid.encode()).hexdigest()[:6], 16))
        self.obligations = []          # (name, ok:bool, note)
        self.assumptions = {}          # theorem -> [axioms]
        self.translators = {}          # name -> status
        self.violations = []           # dicts
        self._vio_keys = set()
        self.known_hits = []
        self.evaluations = 0
        self.case_hashes = set()
        self.nontrivial_hashes = set()
        self.samples = []
        self.distribution = {}
        self.notes = []
        self.trusted = []
        self.broken = []               # (kind, name, detail)  proof/translator/correspondence breaks
        self.rule = ""
        self.extra = {}
        self.scratch = os.path.join(VERIF, "run", f"{pid}-{os.getpid()}")
        os.makedirs(self.scratch, exist_ok=True)
        os.makedirs(EVID, exist_ok=True)
        os.makedirs(REPLAYS, exist_ok=True)
        os.makedirs(GEN, exist_ok=True)
        self.known = load_known(pid)
        self._crumb = os.environ.get("VERIF_CRUMB")
        self._holding = False

    # ---------------------------------------------------------------- translate
    def translate(self, name, fn, out_name=None):
        """Run translator `fn()` -> Coq text; write Gen/<out_name>.v iff changed.
        On failure the previous Gen file is replaced by nothing: we record the break."""
        out_name = out_name or name
        if not self._holding:
            hold_build_lock()
            self._holding = True
        path = os.path.join(GEN, out_name + ".v")
        try:
            txt = fn()
        except Exception as e:  # fail-closed
            self.translators[name] = f"failed: {e}"
            self.broken.append(("translator", name, f"{type(e).__name__}: {e}"))
            with BuildLock():
                write_poison(path, f"{type(e).__name__}: {e}")
            return False
        with BuildLock():
            old = open(path).read() if os.path.exists(path) else None
            if old != txt:
                with open(path, "w") as f:
                    f.write(txt)
        self.translators[name] = "ok sha1=" + hashlib.sha1(txt.encode()).hexdigest()[:12]
        return True

    # ---------------------------------------------------------------- prove
    def prove(self, prop_file, theorems, timeout=900):
        """Full .vo build of coq/<prop_file>.v (and its dependencies).  Each name in
        `theorems` is one obligation; it is discharged iff the file built and
        Print Assumptions reported it with allowed axioms only."""
        try:
            return self._prove(prop_file, theorems, timeout)
        finally:
            if self._holding:
                release_build_lock()
                self._holding = False

    def _prove(self, prop_file, theorems, timeout):
        bad = forbidden_scan()
        if bad:
            for t in theorems:
                self.obligations.append((t, False, "forbidden construct: " + "; ".join(bad[:3])))
            self.broken.append(("proof", prop_file, "forbidden construct in development: " + "; ".join(bad[:5])))
            return False
        with BuildLock():
            self._refresh_other_gens()
            ensure_makefile()
            vfile = os.path.join(COQ, prop_file + ".v")
            os.utime(vfile, None)  # force re-check so that Print Assumptions output is fresh
            cmd = ["timeout", str(timeout), "make", "-j8", prop_file + ".vo"]
            p = subprocess.run(cmd, cwd=COQ, capture_output=True, text=True)
        log = p.stdout + "\n" + p.stderr
        self.extra.setdefault("coq_logs", {})[prop_file] = log[-3000:]
        ok = p.returncode == 0 and os.path.exists(os.path.join(COQ, prop_file + ".vo"))
        if not ok:
            m = re.search(r'File "([^"]+)", line (\d+).*?\n(Error:.*?)(?:\n\n|\Z)', log, flags=re.S)
            where = f"{m.group(1)}:{m.group(2)} {m.group(3)[:600]}" if m else log[-800:]
            for t in theorems:
                self.obligations.append((t, False, "build failed"))
            self.broken.append(("proof", prop_file, where))
            return False
        pa = dict(parse_assumptions(log))
        allok = True
        for t in theorems:
            if t not in pa:
                self.obligations.append((t, False, "no Print Assumptions output"))
                self.broken.append(("proof", t, "theorem missing from " + prop_file))
                allok = False
                continue
            axs = pa[t]
            self.assumptions[t] = axs
            extra = [a for a in axs if a not in ALLOWED_AXIOMS and a.split(".")[-1] not in ALLOWED_AXIOMS]
            if extra:
                self.obligations.append((t, False, "axioms outside the allowed list: " + ",".join(extra)))
                self.broken.append(("proof", t, "unexpected axioms " + ",".join(extra)))
                allok = False
            else:
                self.obligations.append((t, True, "closed" if not axs else "axioms: " + ",".join(axs)))
        if allok and self.tier == "thorough":
            allok = self._coqchk(prop_file) and allok
        return allok

    def _coqchk(self, prop_file):
        """Thorough tier: re-check the compiled property file and everything it depends on with the independent checker and
        read its context summary (axioms of every loaded library, type-in-type, unsafe fixpoints, assumed positivity)."""
        mod = "TLX." + prop_file.replace("/", ".")
        p = subprocess.run(["timeout", "3000", "coqchk", "-silent", "-o", "-Q", ".", "TLX", mod], cwd=COQ, capture_output=True, text=True)
        out = p.stdout + "\n" + p.stderr
        sect = {}
        cur = None
        for line in out.splitlines():
            m = re.match(r"\* (.*?):\s*(.*)$", line.strip())
            if m:
                cur = m.group(1)
                sect[cur] = [m.group(2)] if m.group(2) else []
            elif cur and line.strip():
                sect[cur].append(line.strip())
        axioms = [a for a in sect.get("Axioms", []) if a != "<none>"]
        unsafe = {k: v for k, v in sect.items() if k.startswith(("Constants/Inductives relying", "Inductives whose positivity")) and v != ["<none>"]}
        bad_ax = [a for a in axioms if a not in ALLOWED_AXIOMS and a.split(".")[-1] not in ALLOWED_AXIOMS
                  and ".".join(a.split(".")[-2:]) not in ALLOWED_AXIOMS]
        ok = p.returncode == 0 and "CONTEXT SUMMARY" in out and not unsafe and not bad_ax
        self.extra["coqchk"] = {"module": mod, "exit": p.returncode, "axioms_of_all_loaded_libraries": axioms, "unsafe": unsafe}
        self.obligations.append((f"coqchk {mod}", ok, "independent re-check of the .vo files; axioms: " + (", ".join(axioms) or "none")))
        if not ok:
            self.broken.append(("proof", f"coqchk {mod}", (f"unexpected axioms {bad_ax}; " if bad_ax else "") + (f"unsafe {unsafe}; " if unsafe else "") + out[-500:]))
        return ok

    def _refresh_other_gens(self):
        """Every generated file is regenerated from the CURRENT source tree before a build, not only the ones this check names:
        a file left behind by a run against another tree must not leak into this one.  A translator that fails leaves a file that
        does not compile, so exactly the proofs that depend on it break."""
        from harness import gens
        for name, fn in gens.ALL.items():
            if name in self.translators:
                continue
            path = os.path.join(GEN, name + ".v")
            try:
                txt = fn()
            except Exception as e:
                write_poison(path, f"{type(e).__name__}: {e}")
                self.notes.append(f"translator {name} (not used by this property) failed: {type(e).__name__}: {str(e)[:160]}")
                continue
            old = open(path).read() if os.path.exists(path) else None
            if old != txt:
                with open(path, "w") as f:
                    f.write(txt)

    def coq_eval(self, name, text, timeout=600):
        """Compile a generated Cases file (kernel evaluation with vm_compute); returns stdout."""
        d = os.path.join(COQ, "Cases")
        os.makedirs(d, exist_ok=True)
        path = os.path.join(d, f"{name}_{os.getpid()}_{abs(hash(text)) % 10**9}.v")
        with open(path, "w") as f:
            f.write(text)
        try:
            p = subprocess.run(["timeout", str(timeout), "coqc", "-Q", ".", "TLX", "-w", "-all",
                                os.path.relpath(path, COQ)],
                               cwd=COQ, capture_output=True, text=True)
        finally:
            for ext in (".v", ".vo", ".glob", ".vok", ".vos"):
                try:
                    os.remove(path[:-2] + ext)
                except OSError:
                    pass
            try:
                os.remove(os.path.join(d, "." + os.path.basename(path)[:-2] + ".aux"))
            except OSError:
                pass
        return p.returncode, p.stdout, p.stderr

    def coq_eval_many(self, name, texts, timeout=600, workers=8):
        """Several independent Cases files, compiled by parallel coqc processes; returns [(rc, out, err)] in order."""
        from concurrent.futures import ThreadPoolExecutor
        with ThreadPoolExecutor(max_workers=workers) as ex:
            futs = [ex.submit(self.coq_eval, f"{name}{i}", t, timeout) for i, t in enumerate(texts)]
            return [f.result() for f in futs]

    def obligation(self, name, ok, note=""):
        self.obligations.append((name, bool(ok), note))
        if not ok:
            self.broken.append(("proof", name, note))

    # ---------------------------------------------------------------- cases
    def case(self, obj, nontrivial=True, kind=None):
        self.evaluations += 1
        if self._crumb:
            try:
                with open(self._crumb, "w") as f:
                    f.write(canon({"kind": kind, "case": obj}))
            except Exception:
                pass
        h = hashlib.sha1(canon(obj).encode()).hexdigest()
        if h not in self.case_hashes:
            self.case_hashes.add(h)
            if nontrivial:
                self.nontrivial_hashes.add(h)
            if len(self.samples) < 6 or (kind and sum(1 for s in self.samples if s.get("kind") == kind) == 0 and len(self.samples) < 14):
                s = {"kind": kind or "case", "case": obj}
                self.samples.append(json.loads(canon(s))[:1] if False else json.loads(canon(s)))
        if kind:
            self.distribution[kind] = self.distribution.get(kind, 0) + 1

    def count(self, key, n=1):
        self.distribution[key] = self.distribution.get(key, 0) + n

    def disagree(self, what, case, expected=None, observed=None, signature=None):
        """A concrete input on which the implementation violates the property."""
        sig = signature or {}
        for kf in self.known:
            if kf.get("status") == "known" and match_sig(kf.get("match", {}), sig):
                if kf["id"] not in [k["id"] for k in self.known_hits]:
                    self.known_hits.append(kf)
                return
        key = canon([what, sig])
        if key in self._vio_keys:
            return
        self._vio_keys.add(key)
        self.violations.append({"kind": "failing-input", "what": what, "case": case,
                                "expected": expected, "observed": observed, "signature": sig})

    def broke(self, kind, name, detail):
        self.broken.append((kind, name, detail))

    # ---------------------------------------------------------------- finish
    def finish(self, search=None):
        """Decide.  `search` is an optional callable run when a proof/translator/
        correspondence broke and no failing input is known yet; it may call
        self.disagree(...)."""
        if self.broken and not self.violations and search is not None:
            try:
                search()
            except Exception as e:
                self.notes.append("search raised: " + repr(e))
        if self._holding:
            release_build_lock()
            self._holding = False
        rc = 0
        lines = []
        for kf in self.known_hits:
            lines.append(f"KNOWN-FINDING: property={self.pid} {kf['id']} {kf['what']}")
        nrep = 0
        if self.violations:
            rc = 1
            for v in self.violations[:5]:
                nrep += 1
                path = os.path.join(REPLAYS, f"{self.pid}-{nrep}.json")
                v2 = dict(v)
                v2.update({"property": self.pid, "seed": self.seed, "repo_head": repo_head(),
                           "broken": [list(b) for b in self.broken],
                           "how_to_replay": f"./check {self.pid} --replay {path}"})
                with open(path, "w") as f:
                    json.dump(jsafe(v2), f, indent=1, default=str)
                lines.append(f"VIOLATION property={self.pid} replay={path}")
        elif self.broken:
            rc = 1
            path = os.path.join(REPLAYS, f"{self.pid}-broken.json")
            kinds = {b[0] for b in self.broken}
            kind = "broken-proof" if "proof" in kinds else ("broken-translator" if "translator" in kinds else "broken-correspondence")
            with open(path, "w") as f:
                json.dump({"property": self.pid, "kind": kind,
                           "no_longer_checks": [{"kind": b[0], "name": b[1], "detail": b[2]} for b in self.broken],
                           "seed": self.seed, "repo_head": repo_head(),
                           "note": "the search over model and implementation found no failing input",
                           "how_to_replay": f"./check {self.pid} --tier {self.tier}"}, f, indent=1, default=str)
            lines.append(f"VIOLATION property={self.pid} replay={path} no-failing-input-found")
        self.write_evidence(rc)
        for l in lines:
            print(l)
        sys.stdout.flush()
        shutil.rmtree(self.scratch, ignore_errors=True)
        try:
            os.rmdir(os.path.join(VERIF, "run"))
        except OSError:
            pass
        return rc

    def write_evidence(self, rc):
        nob = len(self.obligations)
        ndis = sum(1 for o in self.obligations if o[1])
        cov = {
            "obligations": nob,
            "discharged": ndis,
            "checker_cmd": f"cd /verif/coq && coq_makefile -f _CoqProject -o Makefile && make Props/{self.pid}.vo   (Coq 8.16.1, full .vo build; run by ./check {self.pid})",
            "trusted_base": self.trusted,
            "obligation_list": [{"name": o[0], "discharged": o[1], "note": o[2]} for o in self.obligations],
            "print_assumptions": self.assumptions,
            "translators": self.translators,
            "evaluations": self.evaluations,
            "distinct_nontrivial": len(self.nontrivial_hashes),
            "distinct": len(self.case_hashes),
            "rule": self.rule,
            "samples": self.samples[:14] if self.samples else [{"kind": "obligation", "case": o[0]} for o in self.obligations[:5]],
            "distribution": self.distribution,
            "known_findings_reproduced": [k["id"] for k in self.known_hits],
            "broken": [list(b) for b in self.broken],
            "notes": self.notes,
        }
        for k, v in self.extra.items():
            if k != "coq_logs":
                cov[k] = v
        ev = {
            "property_id": self.pid,
            "tier": self.tier,
            "seed": self.seed,
            "level": self.level,
            "coverage": cov,
            "assumptions": self.trusted,
            "wall_s": round(time.time() - self.t0, 2),
            "violations": len(self.violations) + (1 if (self.broken and not self.violations) else 0),
            "repo_head": repo_head(),
        }
        with open(os.path.join(EVID, f"{self.pid}.json"), "w") as f:
            json.dump(jsafe(ev), f, indent=1, default=str)


def match_sig(match, sig):
    if not match:
        return False
    for k, v in match.items():
        if sig.get(k) != v:
            return False
    return True


def load_known(pid):
    p = os.path.join(VERIF, "known_findings.json")
    if not os.path.exists(p):
        return []
    try:
        return [k for k in json.load(open(p)) if k.get("property") == pid]
    except Exception:
        return []


def read_src(rel):
    return open(os.path.join(REPO, rel)).read()
