"""Construction of test models, the harness's own netlist extraction (independent of the
compiler's), a reference evaluator written from the property's words, and Coq literals."""
import itertools
import math
from fractions import Fraction

import numpy as np
import torch

from torchlogix.layers import LogicDense, GroupSum, LogicConv2d, LogicConv3d, OrPooling


def tt(g, a, b):
    return (g >> (3 - (2 * a + b))) & 1


# ------------------------------------------------------------------ dense models
def make_dense(rng, in_dim, widths, gates=None, wiring=None, param="raw", flatten=False, k=None, tau=1.0,
               connections="random", self_pairs=0.15):
    """Build a torch Sequential of LogicDense layers with *chosen* gates and wiring.
    gates[l][i] in 0..15; wiring[l] = (a_list, b_list) or None for the layer's own random wiring
    (then a few wires are overwritten with self pairs)."""
    layers = []
    if flatten:
        layers.append(torch.nn.Flatten())
    n_in = in_dim
    for li, w in enumerate(widths):
        try:
            l = LogicDense(n_in, w, device="cpu", connections=connections, parametrization=param)
        except AssertionError:
            l = LogicDense(n_in, w, device="cpu", connections="random", parametrization=param)
        a, b = l.indices[0].clone(), l.indices[1].clone()
        if wiring and wiring[li] is not None:
            a = torch.tensor(wiring[li][0], dtype=torch.int64)
            b = torch.tensor(wiring[li][1], dtype=torch.int64)
        else:
            for i in range(w):
                if rng.random() < self_pairs:
                    b[i] = a[i]
        l.indices = (a, b)
        gl = gates[li] if gates else [rng.randrange(16) for _ in range(w)]
        set_gates(rng, l, gl, param)
        layers.append(l)
        n_in = w
    if k:
        layers.append(GroupSum(k, tau, device="cpu"))
    return torch.nn.Sequential(*layers)


WALSH = None


def walsh_table():
    global WALSH
    if WALSH is None:
        from torchlogix.functional import WALSH_COEFFICIENTS
        WALSH = {}
        for i, w in WALSH_COEFFICIENTS.items():
            WALSH[walsh_gate([Fraction(x) for x in w])] = [float(x) for x in w]
    return WALSH


def walsh_gate(w):
    """gate id of the sign pattern of w0 + w1 A + w2 B + w3 AB at the four corners (None on a zero)."""
    g = 0
    for a in (0, 1):
        for b in (0, 1):
            A, B = 2 * a - 1, 2 * b - 1
            v = w[0] + w[1] * A + w[2] * B + w[3] * A * B
            if v == 0:
                return None
            if v > 0:
                g |= 1 << (3 - (2 * a + b))
    return g


def set_gates(rng, layer_or_param, gl, param):
    w = layer_or_param.weight if hasattr(layer_or_param, "weight") else layer_or_param
    with torch.no_grad():
        if param == "raw":
            # distinct dyadic logits with a unique maximum at the chosen gate
            for i, g in enumerate(gl):
                vals = [x / 8.0 for x in rng.sample(range(-40, 24), 16)]
                vals[g] = 4.0 + rng.randrange(8) / 8.0
                w[i] = torch.tensor(vals)
        else:
            tab = walsh_table()
            for i, g in enumerate(gl):
                scale = 2.0 ** rng.randrange(-3, 3)
                w[i] = torch.tensor([x * scale for x in tab[g]])


def own_gate_ids(weight, param):
    """The harness's own discretisation of a weight matrix (exact, with a uniqueness check)."""
    ids = []
    w = weight.detach().cpu().double().tolist()
    for row in w:
        if param == "raw":
            m = max(row)
            if sum(1 for x in row if x == m) != 1:
                raise ValueError("logits without a unique maximum")
            ids.append(row.index(m))
        else:
            g = walsh_gate([Fraction(x) for x in row])
            if g is None:
                raise ValueError("Walsh form vanishes at a corner")
            ids.append(g)
    return ids


def extract(model):
    """Netlist spec of a torch Sequential, from public attributes only."""
    spec = {"layers": [], "k": None, "tau": None, "input_shape": None}
    for m in model:
        if isinstance(m, torch.nn.Flatten):
            spec["layers"].append({"kind": "flatten"})
        elif isinstance(m, LogicDense):
            a, b = m.indices
            spec["layers"].append({"kind": "dense", "in_dim": m.in_dim, "a": a.tolist(), "b": b.tolist(),
                                   "g": own_gate_ids(m.weight, m.parametrization), "param": m.parametrization})
        elif isinstance(m, (LogicConv2d, LogicConv3d)):
            spec["layers"].append(extract_conv(m))
        elif isinstance(m, OrPooling):
            spec["layers"].append({"kind": "pool", "kernel": m.kernel_size, "stride": m.stride, "padding": m.padding})
        elif isinstance(m, GroupSum):
            spec["k"] = m.k
            spec["tau"] = m.tau
        else:
            raise ValueError("unsupported module in harness extraction: " + type(m).__name__)
    for l in spec["layers"]:
        if l["kind"] == "dense":
            spec["input_shape"] = [l["in_dim"]]
            break
        if l["kind"] == "conv":
            spec["input_shape"] = [l["channels"]] + list(l["in_dim"])
            break
    return spec


def extract_conv(m):
    dims = len(m.in_dim)
    param = getattr(m, "parametrization", "raw")
    gates = []
    for level in m.tree_weights:
        gates.append([own_gate_ids(w, param) for w in level])   # [level][node][kernel]
    ia, ib = m.indices[0]
    return {"kind": "conv", "dims": dims, "in_dim": list(m.in_dim), "channels": m.channels,
            "kernels": m.num_kernels, "depth": m.tree_depth,
            "rf": list(m.receptive_field_size) if isinstance(m.receptive_field_size, (tuple, list)) else [m.receptive_field_size] * dims,
            "stride": m.stride, "padding": m.padding or 0, "param": param,
            "idx_a": ia.tolist(), "idx_b": ib.tolist(),        # [kernel][pos][gate] -> (h, w, (d,) c) padded coords
            "rel_a": m.kernel_pairs[0].tolist(), "rel_b": m.kernel_pairs[1].tolist(),   # [kernel][gate] -> (h, w, (d,) c)
            "gates": gates}


# ------------------------------------------------------------------ reference evaluation (Boolean rows)
def out_len(n, pad, rf, stride):
    return (n + 2 * pad - rf) // stride + 1


def eval_layer(l, x, shape):
    """x: flat list of 0/1 in (C, H, W[, D]) row-major order (or features); returns (y, shape)."""
    kind = l["kind"]
    if kind == "flatten":
        return x, [len(x)]
    if kind == "dense":
        return [tt(g, x[a], x[b]) for a, b, g in zip(l["a"], l["b"], l["g"])], [len(l["a"])]
    if kind == "conv":
        dims = l["dims"]
        C = shape[0]
        sp = shape[1:]
        p = l["padding"]

        def get(c, *co):
            for q, n in zip(co, sp):
                if not (p <= q < n + p):
                    return 0
            off = c
            for q, n in zip(co, sp):
                off = off * n + (q - p)
            return x[off]
        outs = [out_len(n, p, r, l["stride"]) for n, r in zip(sp, l["rf"])]
        npos = 1
        for o in outs:
            npos *= o
        y = []
        for k in range(l["kernels"]):
            for pos in range(npos):
                cur = []
                for gi in range(2 ** l["depth"]):
                    ia = l["idx_a"][k][pos][gi]
                    ib = l["idx_b"][k][pos][gi]
                    va = get(ia[-1], *ia[:-1])
                    vb = get(ib[-1], *ib[:-1])
                    cur.append(tt(l["gates"][0][gi][k], va, vb))
                for lev in range(1, l["depth"] + 1):
                    cur = [tt(l["gates"][lev][j][k], cur[2 * j], cur[2 * j + 1]) for j in range(len(cur) // 2)]
                y.append(cur[0])
        return y, [l["kernels"]] + outs
    if kind == "pool":
        C = shape[0]
        sp = shape[1:]
        ks, st, p = l["kernel"], l["stride"], l["padding"]
        outs = [out_len(n, p, ks, st) for n in sp]
        y = []
        for c in range(C):
            for opos in itertools.product(*[range(o) for o in outs]):
                v = 0
                for kpos in itertools.product(*[range(ks) for _ in sp]):
                    co = [o * st - p + kk for o, kk in zip(opos, kpos)]
                    if all(0 <= q < n for q, n in zip(co, sp)):
                        off = c
                        for q, n in zip(co, sp):
                            off = off * n + q
                        v |= x[off]
                y.append(v)
        return y, [C] + outs
    raise ValueError(kind)


def eval_spec(spec, row):
    x = list(row)
    shape = list(spec["input_shape"])
    for l in spec["layers"]:
        x, shape = eval_layer(l, x, shape)
    return x


def counts(bits, k):
    g = len(bits) // k
    return [sum(bits[c * g:(c + 1) * g]) for c in range(k)]


# ------------------------------------------------------------------ Coq literals
def dense_model_coq(spec):
    flat = any(l["kind"] == "flatten" for l in spec["layers"])
    ls = [l for l in spec["layers"] if l["kind"] == "dense"]
    layers = "[" + ";\n    ".join("[" + "; ".join(f"({a},{b},{g})" for a, b, g in zip(l["a"], l["b"], l["g"])) + "]" for l in ls) + "]"
    return f"{{| dm_in := {ls[0]['in_dim']}; dm_flat := {'true' if flat else 'false'}; dm_layers := {layers}%nat |}}"


def all_rows(n):
    return [[(v >> (n - 1 - i)) & 1 for i in range(n)] for v in range(2 ** n)]


# ------------------------------------------------------------------ conv / pool / mixed stacks
def set_tree_gates(rng, conv, param):
    for level in conv.tree_weights:
        for w in level:
            set_gates(rng, w, [rng.randrange(16) for _ in range(w.shape[0])], param)


def random_geometry(rng, dims, small=True):
    n = [rng.randrange(2, 5 if small else 7) for _ in range(dims)]
    if dims == 3:
        n = [rng.randrange(2, 4) for _ in range(3)]
    pad = rng.choice([0, 0, 1, 2] if dims == 2 else [0, 0, 1])
    rf_max = min(x + 2 * pad for x in n)
    rf = rng.randrange(1, min(3, rf_max) + 1)
    stride = rng.randrange(1, rf + 1)
    return n, pad, rf, stride


def make_stack(rng, dims=2, param="raw", max_in=10, n_conv=None, with_pool=None, n_dense=None, k="auto",
               connections=None, tau=1.0):
    """Random conv{2d,3d}/pool/flatten/dense*/groupsum stack; first spatial layer is a convolution."""
    layers = []
    while True:
        n, pad, rf, stride = random_geometry(rng, dims)
        C = rng.choice([1, 1, 2])
        if C * int(np.prod(n)) <= max_in:
            break
    shape = [C] + n
    n_conv = n_conv if n_conv is not None else rng.choice([1, 1, 2])
    for ci in range(n_conv):
        if ci > 0:
            spatial = shape[1:]
            pad = rng.choice([0, 1])
            rf_max = min(x + 2 * pad for x in spatial)
            rf = rng.randrange(1, min(3, rf_max) + 1)
            stride = rng.randrange(1, rf + 1)
        K = rng.randrange(1, 4)
        depth = rng.randrange(1, 3)
        conn = connections or rng.choice(["random", "random-unique"])
        npos = rf ** dims * shape[0]
        if conn == "random-unique" and 2 ** depth > npos * (npos - 1) // 2:
            conn = "random"
        if dims == 2:
            conv = LogicConv2d(in_dim=tuple(shape[1:]), device="cpu", channels=shape[0], num_kernels=K, tree_depth=depth,
                               receptive_field_size=rf, stride=stride, padding=pad, connections=conn,
                               parametrization=param, weight_init="random")
        else:
            conv = LogicConv3d(in_dim=tuple(shape[1:]), device="cpu", channels=shape[0], num_kernels=K, tree_depth=depth,
                               receptive_field_size=rf, stride=stride, padding=pad, connections=conn)
        set_tree_gates(rng, conv, param if dims == 2 else "raw")
        layers.append(conv)
        shape = [K] + [out_len(x, pad, rf, stride) for x in shape[1:]]
        use_pool = with_pool if with_pool is not None else (rng.random() < 0.5)
        if use_pool and min(shape[1:]) >= 2:
            ks = 2
            st = rng.choice([1, 2])
            pp = rng.choice([0, 0, 1])
            if all(out_len(x, pp, ks, st) >= 1 for x in shape[1:]):
                layers.append(OrPooling(ks, st, pp))
                shape = [shape[0]] + [out_len(x, pp, ks, st) for x in shape[1:]]
    n_dense = n_dense if n_dense is not None else rng.choice([0, 1, 2, 3])
    feat = int(np.prod(shape))
    layers.append(torch.nn.Flatten())
    width = feat
    for di in range(n_dense):
        w = rng.randrange(2, 9)
        l = LogicDense(width, w, device="cpu", connections="random", parametrization=param if dims == 2 else "raw")
        set_gates(rng, l, [rng.randrange(16) for _ in range(w)], param if dims == 2 else "raw")
        layers.append(l)
        width = w
    if k == "auto":
        k = rng.choice([d for d in range(1, width + 1) if width % d == 0])
    if k:
        layers.append(GroupSum(k, tau, device="cpu"))
    return torch.nn.Sequential(*layers)


def input_rows(rng, n, exhaustive_limit, n_random=96):
    if n <= exhaustive_limit:
        return all_rows(n), True
    rows = [[rng.randrange(2) for _ in range(n)] for _ in range(n_random)] + [[0] * n, [1] * n]
    return rows, False


# ------------------------------------------------------------------ Coq literals for conv / pool / mixed nets
def _nl(xs):
    return "[" + "; ".join(str(int(v)) for v in xs) + "]"


def _zl(xs):
    return "[" + "; ".join(f"({int(v)})" for v in xs) + "]%Z"


def conv_spec_coq(l):
    def rel(r):
        return "[" + ";\n      ".join("[" + "; ".join(f"({_nl(g[:-1])}, {int(g[-1])})" for g in k) + "]" for k in r) + "]"
    gates = "[" + ";\n      ".join("[" + "; ".join(_nl(node) for node in level) + "]" for level in l["gates"]) + "]"
    return (f"{{| cv_dims := {_nl(l['in_dim'])}; cv_C := {l['channels']}; cv_K := {l['kernels']}; cv_depth := {l['depth']};\n"
            f"     cv_rf := {_nl(l['rf'])}; cv_stride := {l['stride']}; cv_pad := {l['padding']};\n"
            f"     cv_rel_a := {rel(l['rel_a'])};\n     cv_rel_b := {rel(l['rel_b'])};\n     cv_gates := {gates} |}}")


def layers_coq(spec):
    """list layer literal; shapes are propagated for the pooling layers."""
    shape = list(spec["input_shape"])
    out = []
    for l in spec["layers"]:
        if l["kind"] == "conv":
            out.append(f"LConv {conv_spec_coq(l)}")
            shape = [l["kernels"]] + [out_len(n, l["padding"], r, l["stride"]) for n, r in zip(shape[1:], l["rf"])]
        elif l["kind"] == "pool":
            out.append(f"LPool {{| pl_dims := {_nl(shape[1:])}; pl_C := {shape[0]}; pl_kernel := {l['kernel']}; "
                       f"pl_stride := {l['stride']}; pl_pad := {l['padding']} |}}")
            shape = [shape[0]] + [out_len(n, l["padding"], l["kernel"], l["stride"]) for n in shape[1:]]
        elif l["kind"] == "flatten":
            out.append("LFlatten")
            shape = [int(np.prod(shape))]
        else:
            out.append("LDense [" + "; ".join(f"({a},{b},{g})" for a, b, g in zip(l["a"], l["b"], l["g"])) + "]")
            shape = [len(l["a"])]
    return "[" + ";\n   ".join(out) + "]%nat"


def make_custom(rng, in_shape, layers, param="raw", tau=1.0):
    """layers: list of ("conv", dict(K, depth, rf, stride, pad, conn)) | ("pool", dict(k, s, p)) | ("flatten",) | ("dense", width) | ("gs", k).
    rf may be an int or a per-axis tuple (3-D)."""
    shape = list(in_shape)
    dims = len(shape) - 1
    mods = []
    for l in layers:
        if l[0] == "conv":
            a = l[1]
            rf = a["rf"]
            rfs = list(rf) if isinstance(rf, (tuple, list)) else [rf] * dims
            kw = dict(in_dim=tuple(shape[1:]), device="cpu", channels=shape[0], num_kernels=a["K"], tree_depth=a["depth"],
                      receptive_field_size=rf, stride=a.get("stride", 1), padding=a.get("pad", 0), connections=a.get("conn", "random"))
            if dims == 2:
                c = LogicConv2d(parametrization=param, weight_init="random", **kw)
                set_tree_gates(rng, c, param)
            else:
                c = LogicConv3d(**kw)
                set_tree_gates(rng, c, "raw")
            if a.get("identity"):
                # every node passes its first input through (gate 3 = A): with rf 1 the layer is the identity on the image
                for level in c.tree_weights:
                    for w in level:
                        set_gates(rng, w, [3] * w.shape[0], param if dims == 2 else "raw")
            mods.append(c)
            shape = [a["K"]] + [out_len(n, a.get("pad", 0), r, a.get("stride", 1)) for n, r in zip(shape[1:], rfs)]
        elif l[0] == "pool":
            a = l[1]
            mods.append(OrPooling(a["k"], a["s"], a.get("p", 0)))
            shape = [shape[0]] + [out_len(n, a.get("p", 0), a["k"], a["s"]) for n in shape[1:]]
        elif l[0] == "flatten":
            mods.append(torch.nn.Flatten())
            shape = [int(np.prod(shape))]
        elif l[0] == "dense":
            p_ = param if dims == 2 else "raw"
            d = LogicDense(shape[0], l[1], device="cpu", parametrization=p_)
            set_gates(rng, d, [rng.randrange(16) for _ in range(l[1])], p_)
            mods.append(d)
            shape = [l[1]]
        elif l[0] == "gs":
            mods.append(GroupSum(l[1], tau, device="cpu"))
    return torch.nn.Sequential(*mods)


SYSTEMATIC_STACKS = [
    # (name, input shape, layers)
    ("rect-tall-pad1", (1, 4, 2), [("conv", dict(K=2, depth=2, rf=3, pad=1)), ("flatten",), ("gs", 2)]),
    ("rect-wide-pad1", (1, 2, 4), [("conv", dict(K=2, depth=2, rf=3, pad=1)), ("flatten",), ("gs", 2)]),
    ("rect-pad2-stride2", (2, 2, 3), [("conv", dict(K=2, depth=1, rf=3, pad=2, stride=2)), ("flatten",), ("dense", 4), ("gs", 2)]),
    ("stride-eq-rf", (1, 3, 3), [("conv", dict(K=3, depth=1, rf=2, stride=2, pad=1)), ("flatten",), ("gs", 3)]),
    ("pool-tall-pad1-overhang", (1, 3, 2), [("conv", dict(K=2, depth=1, rf=1, identity=True)), ("pool", dict(k=2, s=2, p=1)), ("flatten",), ("gs", 2)]),
    ("pool-tall-pad1-s1", (1, 4, 2), [("conv", dict(K=1, depth=1, rf=1, identity=True)), ("pool", dict(k=2, s=1, p=1)), ("flatten",), ("gs", 1)]),
    ("pool-wide-pad1", (1, 2, 4), [("conv", dict(K=1, depth=1, rf=1, identity=True)), ("pool", dict(k=2, s=2, p=1)), ("flatten",), ("gs", 1)]),
    ("pool-k3-s2-p1", (1, 3, 3), [("conv", dict(K=1, depth=1, rf=1, identity=True)), ("pool", dict(k=3, s=2, p=1)), ("flatten",), ("gs", 1)]),
    ("conv-pool-conv-dense3", (1, 3, 3), [("conv", dict(K=2, depth=1, rf=2)), ("pool", dict(k=2, s=1)), ("conv", dict(K=2, depth=1, rf=1)),
                                          ("flatten",), ("dense", 5), ("dense", 7), ("dense", 4), ("gs", 2)]),
    ("dense4-after-conv-wide-odd", (1, 2, 2), [("conv", dict(K=2, depth=1, rf=1)), ("flatten",), ("dense", 3), ("dense", 12), ("dense", 4), ("dense", 6), ("gs", 3)]),
    ("conv-unique", (2, 2, 2), [("conv", dict(K=2, depth=2, rf=2, conn="random-unique")), ("flatten",), ("gs", 1)]),
    ("conv-nogs", (1, 3, 3), [("conv", dict(K=2, depth=1, rf=2))]),
    ("conv-flatten-nogs", (1, 2, 3), [("conv", dict(K=2, depth=1, rf=2, pad=1)), ("flatten",)]),
    ("conv3d-pad1", (1, 2, 2, 2), [("conv", dict(K=2, depth=1, rf=2, pad=1)), ("flatten",), ("gs", 2)]),
    ("conv3d-noncubic-rf", (1, 2, 3, 2), [("conv", dict(K=2, depth=2, rf=(2, 3, 1))), ("flatten",), ("gs", 2)]),
    ("conv3d-noncubic-rf-b", (1, 2, 2, 3), [("conv", dict(K=2, depth=2, rf=(1, 2, 3), pad=0)), ("flatten",), ("gs", 1)]),
    ("conv3d-stride2", (1, 3, 2, 3), [("conv", dict(K=1, depth=1, rf=2, stride=2, pad=1)), ("flatten",), ("gs", 1)]),
    ("pool3d-pad1", (1, 2, 2, 2), [("conv", dict(K=1, depth=1, rf=1, identity=True)), ("pool", dict(k=2, s=2, p=1)), ("flatten",), ("gs", 1)]),
    ("pool3d-pad1-rect", (1, 3, 2, 2), [("conv", dict(K=1, depth=1, rf=1, identity=True)), ("pool", dict(k=2, s=1, p=1)), ("flatten",), ("gs", 1)]),
    ("depth0-2d-pad1", (2, 3, 3), [("conv", dict(K=3, depth=0, rf=2, pad=1)), ("flatten",), ("gs", 3)]),
    ("depth0-3d", (1, 2, 2, 3), [("conv", dict(K=2, depth=0, rf=(1, 2, 2))), ("flatten",), ("gs", 1)]),
    ("depth0-then-depth1", (1, 3, 3), [("conv", dict(K=2, depth=0, rf=2)), ("conv", dict(K=2, depth=1, rf=2)), ("flatten",), ("dense", 4), ("gs", 2)]),
    ("depth3-conv", (1, 3, 3), [("conv", dict(K=1, depth=3, rf=3, pad=1, stride=2)), ("flatten",), ("gs", 1)]),
    ("chan3-pad1-depth2", (3, 2, 2), [("conv", dict(K=2, depth=2, rf=2, pad=1)), ("flatten",), ("gs", 2)]),
    ("conv3d-chan2-depth2", (2, 2, 2, 2), [("conv", dict(K=2, depth=2, rf=2)), ("flatten",), ("gs", 2)]),
    ("pool3d-k3-s2-p1", (1, 2, 3, 2), [("conv", dict(K=1, depth=1, rf=1, identity=True)), ("pool", dict(k=3, s=2, p=1)), ("flatten",), ("gs", 1)]),
]


def spatial_model_coq(spec):
    """spatial_model literal for stacks Conv (Conv|Pool)* [Flatten Dense*]; None if the spec is not of that form."""
    ls = spec["layers"]
    sp, i = [], 0
    shape = list(spec["input_shape"])
    while i < len(ls) and ls[i]["kind"] in ("conv", "pool"):
        l = ls[i]
        if l["kind"] == "conv":
            sp.append(f"LConv {conv_spec_coq(l)}")
            shape = [l["kernels"]] + [out_len(n, l["padding"], r, l["stride"]) for n, r in zip(shape[1:], l["rf"])]
        else:
            sp.append(f"LPool {{| pl_dims := {_nl(shape[1:])}; pl_C := {shape[0]}; pl_kernel := {l['kernel']}; "
                      f"pl_stride := {l['stride']}; pl_pad := {l['padding']} |}}")
            shape = [shape[0]] + [out_len(n, l["padding"], l["kernel"], l["stride"]) for n in shape[1:]]
        i += 1
    if not sp or ls[0]["kind"] != "conv":
        return None
    flat = i < len(ls) and ls[i]["kind"] == "flatten"
    if flat:
        i += 1
    dense = ls[i:]
    if any(l["kind"] != "dense" for l in dense) or (dense and not flat):
        return None
    dl = "[" + "; ".join("[" + "; ".join(f"({a},{b},{g})" for a, b, g in zip(l["a"], l["b"], l["g"])) + "]" for l in dense) + "]"
    return (f"{{| sm_C := {spec['input_shape'][0]}; sm_dims := {_nl(spec['input_shape'][1:])};\n   sm_spatial := [" + ";\n      ".join(sp) +
            f"];\n   sm_flat := {'true' if flat else 'false'}; sm_dense := {dl} |}}")
