"""Writes /verif/MANIFEST.json from the table below (kept in one place so it stays valid)."""
import json
import os

VERIF = os.path.dirname(os.path.dirname(os.path.abspath(__file__)))

CLAIMS = {
    "C04": dict(
        category="proof",
        text="Coq theorems over the terms regenerated from the source on every run: each relaxation lambda is the "
             "multilinear extension of the 4-bit table of its id for all real a,b (ring), maps [0,1]^2 into [0,1] (nra), "
             "the vectorised entries are the same polynomials, each emitted C template computes the table in every lane "
             "of unbounded operands and after wrap to 8/16/32/64 bits, operation names and both documented tables agree. "
             "Translators are cross-checked against the real callables and real gcc output on every run.",
        design_ref="DESIGN.md section 6 C04",
        note="Coq kernel; Reals axioms (sig_forall_dec, sig_not_dec, functional_extensionality_dep) under the real-valued "
             "theorems; translators translate/ops.py, translate/gatecode.py; gcc's two's-complement bitwise operators.",
        technique="Rocq/Coq proof over a model regenerated from source by translator (ring/nra/Z.testbit lemmas) + differential cross-check",
    ),
}

NOT_YET = "not yet built in this revision of /verif (work in progress; see DESIGN.md section 9 build order)"


def main():
    checks = []
    for pid in sorted(CLAIMS):
        c = CLAIMS[pid]
        checks.append({
            "property_id": pid,
            "quick_cmd": f"./check {pid} --tier quick",
            "thorough_cmd": f"./check {pid} --tier thorough",
            "evidence_file": f"/verif/evidence/{pid}.json",
            "replay_cmd_template": f"./check {pid} --replay {{path}}",
            "engine": "coq-tlx",
            "level_claimed": {"category": c["category"], "text": c["text"], "design_ref": c["design_ref"]},
            "level_note": c["note"],
            "technique": c["technique"],
        })
    allp = [json.loads(l)["id"] for l in open(os.path.join(VERIF, "properties.jsonl"))]
    na = [{"property_id": p, "reason": NOT_YET} for p in allp if p not in CLAIMS]
    m = {
        "version": 1,
        "setup_cmd": "./setup.sh",
        "hooks": {
            "guard": "TORCHLOGIX_VERIF",
            "enable": "no source hooks are needed; checks export TORCHLOGIX_VERIF=1 (ignored by the library)",
            "baseline_off_cmd": "cd /repo && /venv/bin/python -m pytest -ra -q -p no:cacheprovider --timeout=900 --continue-on-collection-errors",
            "source_commits": [],
            "add_only": True,
        },
        "engines": [{"name": "coq-tlx", "path": "/verif/coq", "serves_properties": sorted(CLAIMS),
                     "kind_free_text": "Coq 8.16.1 development (Model/ Proofs/ Props/ + Gen/ regenerated from /repo by /verif/translate) "
                                       "with a Python correspondence harness (/verif/harness) that runs the real PyTorch/gcc implementation "
                                       "against the model evaluated by coqc vm_compute"}],
        "checks": checks,
        "not_applicable": na,
        "notes": "Single entry point ./check <id>; see DESIGN.md.",
    }
    with open(os.path.join(VERIF, "MANIFEST.json"), "w") as f:
        json.dump(m, f, indent=1)


if __name__ == "__main__":
    main()
