"""Writes /verif/MANIFEST.json from the table below (kept in one place so it stays valid)."""
import json
import os

VERIF = os.path.dirname(os.path.dirname(os.path.abspath(__file__)))

CLAIMS = {
    "C04": dict(
        category="proof",
        text="Coq theorems over the terms regenerated from the source on every run: each relaxation lambda is the "
             "multilinear extension of the 4-bit table of its id for all real a,b (ring), maps [0,1]^2 into [0,1] (nra), "
             "the vectorised entries are the same polynomials, each emitted C template computes the table in every lane "
             "of unbounded operands and after wrap to 8/16/32/64 bits, operation names and both documented tables agree. "
             "Translators are cross-checked against the real callables and real gcc output on every run.",
        design_ref="DESIGN.md section 6 C04",
        note="Coq kernel; Reals axioms (sig_forall_dec, sig_not_dec, functional_extensionality_dep) under the real-valued "
             "theorems; translators translate/ops.py, translate/gatecode.py; gcc's two's-complement bitwise operators.",
        technique="Rocq/Coq proof over a model regenerated from source by translator (ring/nra/Z.testbit lemmas) + differential cross-check",
    ),
    "C01": dict(
        category="proof",
        text="Coq theorem for EVERY dense network (any depth, widths, wiring incl. self pairs, gates, leading Flatten), every "
             "word size and every input: the Gallina generator model gen_dense produces a program whose execution in the "
             "modelled C fragment succeeds and equals the reference circuit in every bit lane (induction over layers incl. the "
             "ping-pong buffers); composed with the proved pack/adder/unpack wrapper and host model it gives the per-class counts "
             "for every batch size, and 0/1 outputs without GroupSum. The generator model is tied to get_c_code() by parsing the "
             "emitted text of every sampled model and checking syntactic equality with gen_dense inside Coq; real gcc runs at "
             "-O0..-O3 on exhaustive inputs are compared with eval-mode PyTorch and the reference circuit.",
        design_ref="DESIGN.md section 6 C01",
        note="Coq kernel (theorems closed under the global context); strict C parser; gcc/clang on the straight-line fragment; "
             "PyTorch eval forward = reference circuit is exercised, not proved.",
        technique="Rocq/Coq proof (induction over the layer list of a generator model; Z.testbit lane lemmas) + text-equality and differential correspondence",
    ),
    "C05": dict(
        category="proof",
        text="Coq theorems: lane r of a packed word is row r's bit for every lane incl. the sign lane; for ANY lane-wise logic_net "
             "the host+wrapper model returns, for every batch size, map per_row rows (a function of each row alone; padding, "
             "position, other rows and W do not occur); every index used by the wrapper is inside its array for every number of "
             "words. Wrapper and host code are tied by token/statement equality translators, a recorder in place of lib_fn, real "
             "forward on sub-batches/permutations for batch sizes 1..3W+1, kernel evaluation of the model vs real runs, and an "
             "ASan/UBSan standalone driver.",
        design_ref="DESIGN.md section 6 C05",
        note="Coq kernel (closed theorems); translators translate/wrapper.py; numpy/ctypes behaviour observed, not proved; gcc shift semantics.",
        technique="Rocq/Coq proof (list/Z.testbit induction, refinement of host+wrapper to a per-row function) + differential and sanitizer correspondence",
    ),
    "C06": dict(
        category="proof",
        text="Coq theorems: GroupSum over exact rationals is count/tau per consecutive group for any leading shape and rejects "
             "non-divisible widths; the bit-sliced ripple-carry adder plus unpack returns the exact popcount in every lane for "
             "EVERY group size (induction on the added words, no-overflow invariant), and the translated width expression satisfies "
             "g < 2^width for all g. Tied by translators, exact comparison with torch GroupSum, a real compiled identity network "
             "realising every count 0..g for every g up to 40/300, and evaluation of the Python float width expression for all g up to 2^16/2^20.",
        design_ref="DESIGN.md section 6 C06",
        note="Coq kernel (closed theorems); translators; Python binary64 log2 beyond the checked range is assumed.",
        technique="Rocq/Coq proof (induction on accumulator/added words, Z.log2_up spec) + differential correspondence",
    ),
    "C11": dict(
        category="proof",
        text="Coq theorems: for EVERY well-formed dense model (C11_safe_dense) and EVERY well-formed stack Conv (Conv|Pool)* "
             "[Flatten Dense*], 2-D/3-D (C11_safe_net, corollary of the generator proof of C02) the generated logic_net runs without "
             "out-of-bounds index, uninitialised read or write to the input (exec = Some) and fills out; the generator models are "
             "tied to the emitter by text equality checked in the kernel for every sampled model and, through a streaming comparison "
             "proved sound (C11_safe_emitted), for the library's predefined architectures (13k..60k statements); a verified checker "
             "safe_check (sound for all inputs and word sizes because success of the interpreter is value-independent) is also "
             "evaluated in the kernel on every sampled program; the wrapper's index extents are proved for every number of words; "
             "exec is a function (no UB/unspecified order in the fragment). Supported by ASan/UBSan standalone builds at -O0/-O2 "
             "(gcc, clang) and cross-optimisation-level output comparison.",
        design_ref="DESIGN.md section 6 C11",
        note="Coq kernel (closed theorems); strict C parser; compilers trusted on the fragment; stack exhaustion and signed-shift UB "
             "excluded (see DESIGN).",
        technique="Rocq/Coq proof (interpreter that fails on unsafe access; forall-model theorems for dense and conv/pool generator "
                  "models; verified per-program checker) + text-equality correspondence + sanitizer runs",
    ),
    "C13": dict(
        category="proof",
        text="Coq theorems with the random draws universally quantified (every permutation = every seed): dense 'unique' wiring has "
             "a<b<n, no repeated pair, exactly out_dim pairs, and infeasible sizes are rejected; dense 'random' wiring is in range "
             "and covers every input when 2*out_dim >= in_dim; conv 'random-unique' pairs are distinct with i<j<P and distinct "
             "positions; tree levels are full binary (left++right is a permutation of the level's nodes) and a kernel of tree_depth d has "
             "2^(d+1)-1 gates on 2^(d+1) window positions; exact characterisation of the inputs 'unique' wiring uses. The hand-written model is "
             "tied by exact equality with layer.indices / kernel_pairs of real constructors under recorded draws.",
        design_ref="DESIGN.md section 6 C13",
        note="Coq kernel (closed theorems); torch.randperm/randint return permutations / in-range values (trusted); the slice-level "
             "mirror of get_unique_connections is proved equal to the closed form for every size (C13_unique_slices).",
        technique="Rocq/Coq proof (Permutation/NoDup reasoning over a model parameterised by the draws) + exact differential correspondence",
    ),
    "C07": dict(
        category="proof",
        text="Coq theorems over exact rationals (every float is one) on terms regenerated from the source: eval output = [form > 0] at the "
             "corner; the id reported by get_gate_ids has exactly the eval truth table (all 16 prediction patterns by kernel computation, "
             "lifted to all coefficient vectors); conv layers use the same rule; the compiler's _walsh_gate_ids computes the same "
             "function and is wired into both extraction sites; the 16 built-in vectors are exact +-1 expansions of 16 distinct gates; "
             "over R, logistic(x/tau) > 1/2 iff x > 0. Tied on all 81 sign/zero corner patterns at 5-10 magnitudes (exact dyadic "
             "coefficients) through dense and conv layers, get_gate_ids and the compiled library.",
        design_ref="DESIGN.md section 6 C07",
        note="Coq kernel; Reals axioms + Classical_Prop.classic under C07_soft only; translator translate/ops.py gen_walsh; float "
             "evaluation is exact only on the dyadic grid used (sum order of torch not modelled elsewhere).",
        technique="Rocq/Coq proof over Q (finite case analysis lifted by the sign pattern) and R (exp monotonicity) + exact differential correspondence",
    ),
    "C12": dict(
        category="proof",
        text="Coq theorems on the N-D convolution model, generic in the value type and the per-node function (eval and training alike): "
             "out[k][p] = kernel_tree k (window p of the zero-padded input) with one tree per kernel; equal windows give equal outputs "
             "(translation equivariance); the index tensor is relative index + stride * position; the number of positions per axis is "
             "floor((H+2p-rf)/s)+1 = len(arange) and every window fits the padded image; unravelled field positions are inside the field. "
             "Tied by exact equality of layer.indices with sliding_indices evaluated in the kernel and by eval/training forward vs "
             "per-window evaluation, output shapes and shifted images, 2-D and 3-D.",
        design_ref="DESIGN.md section 6 C12",
        note="Coq kernel (closed theorems); torch indexing/pad/meshgrid modelled; training outputs compared within 1e-5 of a float64 reference.",
        technique="Rocq/Coq proof (list/nth reasoning on a generic convolution model) + exact index-tensor correspondence",
    ),
    "C14": dict(
        category="proof",
        text="Coq theorems on a decision model of _parse_model + _validate_structure whose dispatch table and checks are regenerated "
             "from the source: if the constructor succeeds, no foreign/nested module occurs, every layer module is recorded in order, "
             "the GroupSum is unique and last, spatial layers form a prefix starting with a convolution, Flatten sits exactly between "
             "the spatial part and dense layers / GroupSum, shapes chain and the width divides by the classes (unbounded, by induction "
             "over index lists); foreign modules are rejected; accepted dense stacks are compiled faithfully (C01). Partial: 'foreign "
             "torch modules' is an open class represented by one kind. One object whose container changes between operations (Model/Handle.v): for "
             "EVERY sequence of {container := m, get_c_code(), compile(), call} a call returns the model of the last successful compile, under "
             "the table discipline read from the source; the pre-F67 discipline is refuted. Tied by a catalogue of containers built for real "
             "(incl. seven ways of changing what a layer computes without overriding forward), container-changed protocols, and random "
             "operation sequences on one real object against the handle machine evaluated in the kernel.",
        design_ref="DESIGN.md section 6 C14",
        note="Coq kernel (closed theorems); translator translate/parse.py; faithfulness of accepted conv/pool stacks per sampled model (and C02).",
        technique="Rocq/Coq proof on a decision model regenerated by translator + catalogue correspondence (raise vs compile vs outputs)",
    ),
    "C19": dict(
        category="proof",
        text="Coq theorems: for each public constructor / call the guard model (mirroring the asserts and raises in source order) rejects "
             "every configuration outside the domain listed by the property and accepts every one inside; every modelled guard is present "
             "in the current source (translator); conv padding defaults are the number 0; the compiler's OrPooling guard decides exactly the "
             "domain of max pooling and what it accepts satisfies the generator theorem's well-formedness condition; the compiled forward's "
             "shape guard decides exactly 'the samples have the declared layout'; GroupSum needs k > 0. Tied by running the real component on an "
             "enumerated catalogue of invalid arguments crossed with valid random configurations and comparing raise-vs-return with the "
             "model evaluated in the kernel.",
        design_ref="DESIGN.md section 6 C19",
        note="Coq kernel (closed theorems); translator translate/guards.py (text presence of guards); any exception counts as rejection.",
        technique="Rocq/Coq proof on a decision model (case analysis, lia) + guard-presence translator + catalogue correspondence",
    ),
    "C20": dict(
        category="proof",
        text="Coq theorems for EVERY scale k >= 1, on layer lists regenerated by symbolic construction of each exported class: conv/pool "
             "output sizes, channel counts, Flatten products, dense in_dim and group-sum divisibility chain from the documented input "
             "shape to (batch, classes) (lia with div/mod equations); all 24 fixed-scale subclasses construct (argument plumbing through "
             "signature-checking stubs) and chain. Connection-scheme axis: every convolutional family admits connections='unique' for every "
             "k >= 1, the dense family exactly between half the input width and the number of input pairs, and ClgnCifar10Mini at no scale "
             "(theorem C20_unique_scheme_Mini_refuted = known finding F51); the scheme given to a class reaches every logic layer (translator). "
             "Tied by building the real classes at k in {1,2} x {raw, walsh}, comparing per-layer "
             "shapes from forward hooks with the shape model in the kernel, finite outputs in train/eval, integer*(1/tau) in eval, baselines.",
        design_ref="DESIGN.md section 6 C20",
        note="Coq kernel (closed theorems); translator translate/models.py; large fixed-scale classes are not built for real.",
        technique="Rocq/Coq proof (lia over affine dimensions from a symbolic-construction translator) + forward-hook correspondence",
    ),
    "C03": dict(
        category="proof",
        text="Coq theorems over the dispatch table regenerated by partial evaluation of the forward methods: in eval mode every layer "
             "(dense, conv2d raw/Walsh, conv3d) takes the same path for all four sampling modes and that path contains only the one-hot "
             "of the argmax of the RAW logits / the threshold form > 0, mixtures, padding and the forward-identity gradient scaling, at "
             "every tree level; binary32 (Flocq): with one-hot weights and 0/1 inputs the mixture loop returns exactly the table bit "
             "(16 gates x 4 inputs); the reference circuit is row-wise. Tied by exact comparison of eval outputs with the reference "
             "circuit (Python mirror + Model/ConvNet in the kernel) under all modes, temperatures, grad factors, repeated calls, "
             "sub-batches, leading shapes, after training forwards, in-place weight changes and load_state_dict, incl. 1e-30-scale logits.",
        design_ref="DESIGN.md section 6 C03",
        note="Coq kernel; Flocq lemmas depend on Reals axioms + classic; translators dispatch.py / ops.py; torch primitives modelled by the reference circuit.",
        technique="Rocq/Coq proof over a dispatch table regenerated by a partial-evaluation translator + Flocq binary32 computation + exact differential correspondence",
    ),
    "C08": dict(
        category="proof",
        text="Coq theorems over R: softmax(w/tau) is a probability vector; the source's accumulation loop is the mixture; a raw neuron's "
             "soft output lies in [0,1] for all inputs in [0,1], logits and temperatures (multilinearity + convexity); logistic in (0,1); "
             "every tree level of a 2-D/3-D convolution stays in [0,1] (induction over levels of the generic conv model); a one-hot choice "
             "on Boolean inputs gives the table bit; the soft training rows of the regenerated dispatch table apply softmax(w/temperature) "
             "/ logistic(form/temperature) at the first level and in the loop. Tied by float64 layer runs vs a numpy mirror (1e-9) and "
             "by per-sample lemmas |model - observed| <= 1e-9 closed by the interval tactic (Qed).",
        design_ref="DESIGN.md section 6 C08",
        note="Coq kernel; Reals axioms + classic; hand-written R model tied by interval lemmas; float32 rounding not proved (1e-6 slack).",
        technique="Rocq/Coq proof over R (ring/nra/induction) + dispatch translator + interval-tactic correspondence",
    ),
    "C09": dict(
        category="proof",
        text="Coq theorems: x_hard - x + x = x_hard; argmax(softmax(w/tau)) = argmax(w) for every tau > 0 (strict monotonicity), hence "
             "the weight vector forwarded by 'hard' is the eval-mode one-hot vector and the neuron outputs the eval value for every "
             "input; Walsh: [logistic(x/tau) > 1/2] = [x > 0]; a one-hot (Gumbel hard) weight vector applies exactly one gate; the "
             "'hard' / 'gumbel_hard' rows of the regenerated dispatch table use the straight-through functions with tau = temperature "
             "at the first level and in the loop; eval rows are mode independent. Tied by train('hard') vs eval on Boolean and real "
             "inputs (1e-6), fresh-object mode-switch sequences, and gumbel_hard draws (single gate per neuron).",
        design_ref="DESIGN.md section 6 C09",
        note="Coq kernel; Reals axioms + classic; binary32 rounding of (1-p)+p allowed 1e-6; gumbel_softmax modelled from its documentation.",
        technique="Rocq/Coq proof over R (monotonicity of exp, case analysis) + dispatch translator + differential correspondence",
    ),
    "C10": dict(
        category="proof",
        text="Coq theorems (Coquelicot is_derive): the mixture is affine in each input so its derivative is its slope; softmax Jacobian "
             "p_i(delta_ij - p_j)/tau and logistic derivative s(1-s)/tau; a dual-number model of autograd (detach and comparisons carry a "
             "zero derivative) is sound on the smooth operations, and under it both straight-through forms forward the hard value with the "
             "soft gradient (non-zero for 0<p<1); GradFactor leaves values unchanged and multiplies the gradient by f; every layer applies "
             "GradFactor to its input first (regenerated dispatch table). Tied by torch.autograd.grad in float64 vs the analytic formulas "
             "(1e-9) for dense raw/Walsh soft/hard, gumbel modes, and exact gradient ratios f on dense, conv2d (padding 0..2), conv3d.",
        design_ref="DESIGN.md section 6 C10",
        note="Coq kernel; Reals axioms + classic; that torch's reverse-mode engine implements the dual-number semantics is trusted and exercised.",
        technique="Rocq/Coq proof (Coquelicot auto_derive, dual-number autodiff model) + dispatch translator + autograd differential correspondence",
    ),
    "C15": dict(
        category="proof",
        text="Coq theorems: a layer rebuilt under ANY RNG state and loaded from a saved state that contains the wiring is the saved layer "
             "(same eval function); without the wiring the statement is false (witness); the current source persists the wiring for "
             "every class and connection scheme (introspection translator); in the process model a library saved to p and loaded from p "
             "computes the saved model from any reachable state. The persistence code itself (get/set_extra_state, _geometry, "
             "_load_from_state_dict of LogicDense, the convolutions and the learnable thermometer) is modelled as written (statement-equality "
             "translator) and proved: every well-formed layer saved and loaded into ANY layer built alike is restored exactly (dense, 2-D/3-D "
             "conv incl. hand-set index tensors, thermometer incl. the frozen flag); whatever checkpoint is ACCEPTED leaves a well-formed layer "
             "(wires inside the input, kernel pairs inside the receptive field, own geometry); checkpoints of another geometry are refused. "
             "dense_load / conv_load are evaluated in the kernel on 40 real, foreign, old-format and tampered checkpoints against "
             "load_state_dict (decision and installed wiring). Partial: byte-level serialisation and the loader are outside the model. Tied by "
             "two-process histories (seed s1 save, seed s2 + advanced RNG rebuild/load) for five model kinds and four word sizes on a "
             "100-row probe batch.",
        design_ref="DESIGN.md section 6 C15",
        note="Coq kernel (closed theorems); translators persist.py (introspection; statement equality of the persistence methods) and libio.py; "
             "torch.nn.Module.load_state_dict, torch.save/load and dlopen trusted.",
        technique="Rocq/Coq proof on a model of the persistence code (round trip, soundness of every accepted load) + statement-equality and introspection translators + kernel-vs-load_state_dict and cross-process differential correspondence",
    ),
    "C16": dict(
        category="proof",
        text="Coq refinement theorem: for EVERY finite history over compile(save to p)/load(p)/call/compile() again on an existing instance, "
             "the process model with the save, load and recompile disciplines read from the source (rename into place, private copy on "
             "load, an instance without a model refuses) produces exactly the outputs of the specification 'a call returns the model its "
             "handle was made from; load(p) yields the model most recently saved to p; recompiling saves the instance's own model', and "
             "never crashes (induction with a refinement relation); the old disciplines are refuted by concrete histories. Concurrent calls: "
             "an interleaving model (Model/Threads.v: any number of threads, each a list of calls into any of several libraries, one C statement "
             "per step, stale garbage in `out` and in every declared buffer) with the theorem that for EVERY schedule no thread gets stuck, "
             "each thread's results are those of its calls made alone (execZ = the eval-mode function by C01/C02), and every schedule that "
             "gives a thread its turns finishes it - provided the declared buffers are private per thread, which is what the translator reads "
             "from BUFFER_STORAGE and from every declaration site (`static __thread`); composed with the generator theorems: for the generated "
             "programs of ANY well-formed dense / conv-pool-flatten-dense models every result is the eval-mode circuit in every bit lane, under "
             "every schedule; plain `static` buffers are refuted by a concrete schedule. File identities: the same refinement theorem holds for EVERY inode allocation policy a file system may follow "
             "(Model/ProcAlloc.v: numbers of replaced files are re-used), and a loader caching by (device, inode) is refuted. "
             "Partial: the loader/mmap semantics are modelled; that the C implementation gives thread-local and malloc'd objects "
             "these semantics is trusted. Tied by executing histories (fixed dangerous "
             "shapes + random, length <= 5/7) in fresh interpreters and comparing every step with the model in the kernel; 2..16 threads "
             "on same/different handles vs sequential results; compile() on loaded handles; concurrent saves to one path; storage class of every "
             "parsed declaration = BUFFER_STORAGE; Model/Threads.run_schedule evaluated in the kernel on parsed dense and conv programs under "
             "random schedules vs the real library called alone.",
        design_ref="DESIGN.md section 6 C16",
        note="Coq kernel (closed theorems); translators libio.py, storage.py, wrapper.py; glibc loader, file system, TLS implementation trusted / exercised.",
        technique="Rocq/Coq proof (refinement of a state machine to an abstract map spec by induction over histories; invariant over every schedule of an interleaving model with monotonicity of the C interpreter in the memory) + translators + subprocess history, real-thread and kernel-schedule correspondence",
    ),
    "C17": dict(
        category="proof",
        text="Coq theorems over R on the model sigmoid((x + ln(u+1e-20) - ln(1-u+1e-20))/tau): sample in (0,1), hard sample in {0,1}; "
             "hard = 1 iff x + noise > tau*logit(t), which at the default threshold does not mention tau; without the guard the event "
             "is u in (1 - logistic(x), 1), an interval of length logistic(x); reproducibility; tau <= 0 rejected (guards present); raw Gumbel "
             "modes: the sampled gate is the winner of the exponential race with rates exp(w_i), whatever the temperature; "
             "layers: gumbel_hard = one gate, gumbel_soft = valid mixture. Partial: uniformity of torch.rand_like trusted. Tied with the "
             "uniform draw supplied by the harness: float64 mirror, interval lemmas, exact hard events, temperature independence, seeds, "
             "fixed-seed frequencies (6 sigma), layers in both Gumbel modes.",
        design_ref="DESIGN.md section 6 C17",
        note="Coq kernel; Reals axioms + classic; rand_like uniformity trusted; gumbel_softmax from documentation.",
        technique="Rocq/Coq proof over R (monotonicity of logistic/ln/exp) + interval-tactic and supplied-draw correspondence",
    ),
    "C18": dict(
        category="proof",
        text="Coq theorems over R on a model that equals the source statement by statement (translator): thresholds = cumsum(softplus) "
             "strictly increasing for any raw vector (torch's softplus threshold included); a fresh layer reports its initial thresholds; "
             "hard and soft codes are non-increasing along the threshold axis, soft in (0,1), rounds to the hard code, equals the tanh "
             "form; freezing (round-half-even via Flocq ZnearestE) gives rounded, ordered thresholds within 1/2, the exact hard code, "
             "and is idempotent. Binary32 resolution (recorded finding F13b) is outside the R model. Tied by float64 mirror, interval "
             "lemmas, exact hard codes, rank-3/rank-4 inputs, freeze 1..3 times, small/large/closely spaced initial thresholds.",
        design_ref="DESIGN.md section 6 C18",
        note="Coq kernel; Reals axioms + classic (also via Flocq); translator thermo.py; torch softplus/round modelled from documentation.",
        technique="Rocq/Coq proof over R (Flocq rounding lemmas, ln/exp) + statement-equality translator + interval-tactic correspondence",
    ),
    "C02": dict(
        category="proof",
        text="Coq theorem for EVERY well-formed stack Conv (Conv|Pool)* [Flatten Dense*] (2-D and 3-D; any channels, image sizes, "
             "receptive fields, strides, paddings, tree depths incl. 0, wirings, gates, pooling geometry), every word size and every "
             "input: the Gallina generator model gen_net produces a program whose execution in the modelled C fragment succeeds (no "
             "out-of-bounds access, no read before write) and equals the reference circuit (zero padding, shared kernel trees, OR "
             "pooling, dense layers) in every bit lane (C02_logic_net; induction over tree levels, grid cells, layers); composed with "
             "the proved wrapper and host it gives the per-class counts for every batch size (C02_net_counts) and the 0/1 outputs "
             "without GroupSum (C02_net_direct). gen_net is tied to get_c_code() on every run by parsing the emitted text of every "
             "sampled stack (systematic geometries + random) and checking syntactic equality with gen_net(architecture) and "
             "well-formedness inside the Coq kernel. Independently, a VERIFIED validator (C02_validator_sound) checks each parsed "
             "program against the reference circuit on all Boolean inputs, and real libraries (gcc -O0..3, four word sizes) are "
             "compared with eval-mode PyTorch.",
        design_ref="DESIGN.md section 6 C02",
        note="Coq kernel (theorems closed under the global context); hand-written generator model checked by text equality per sampled "
             "model; strict C parser; compilers; PyTorch eval = reference circuit compared exactly, not proved.",
        technique="Rocq/Coq proof (induction over tree levels / cells / layers of a generator model; lane-parallelism) + text-equality, "
                  "verified-validator and differential correspondence",
    ),
}

NOT_YET = "not yet built in this revision of /verif (work in progress; see DESIGN.md section 9 build order)"


def main():
    checks = []
    for pid in sorted(CLAIMS):
        c = CLAIMS[pid]
        checks.append({
            "property_id": pid,
            "quick_cmd": f"./check {pid} --tier quick",
            "thorough_cmd": f"./check {pid} --tier thorough",
            "evidence_file": f"/verif/evidence/{pid}.json",
            "replay_cmd_template": f"./check {pid} --replay {{path}}",
            "engine": "coq-tlx",
            "level_claimed": {"category": c["category"], "text": c["text"], "design_ref": c["design_ref"]},
            "level_note": c["note"],
            "technique": c["technique"],
        })
    allp = [json.loads(l)["id"] for l in open(os.path.join(VERIF, "properties.jsonl"))]
    na = [{"property_id": p, "reason": NOT_YET} for p in allp if p not in CLAIMS]
    m = {
        "version": 1,
        "setup_cmd": "./setup.sh",
        "hooks": {
            "guard": "TORCHLOGIX_VERIF",
            "enable": "no source hooks are needed; checks export TORCHLOGIX_VERIF=1 (ignored by the library)",
            "baseline_off_cmd": "cd /repo && /venv/bin/python -m pytest -ra -q -p no:cacheprovider --timeout=900 --continue-on-collection-errors",
            "source_commits": [],
            "add_only": True,
        },
        "engines": [{"name": "coq-tlx", "path": "/verif/coq", "serves_properties": sorted(CLAIMS),
                     "kind_free_text": "Coq 8.16.1 development (Model/ Proofs/ Props/ + Gen/ regenerated from /repo by /verif/translate) "
                                       "with a Python correspondence harness (/verif/harness) that runs the real PyTorch/gcc implementation "
                                       "against the model evaluated by coqc vm_compute"}],
        "checks": checks,
        "not_applicable": na,
        "notes": "Single entry point ./check <id>; see DESIGN.md.",
    }
    with open(os.path.join(VERIF, "MANIFEST.json"), "w") as f:
        json.dump(m, f, indent=1)


if __name__ == "__main__":
    main()
