"""Writes /verif/MANIFEST.json from the table below (kept in one place so it stays valid)."""
import json
import os

VERIF = os.path.dirname(os.path.dirname(os.path.abspath(__file__)))

CLAIMS = {
    "C04": dict(
        category="proof",
        text="Coq theorems over the terms regenerated from the source on every run: each relaxation lambda is the "
             "multilinear extension of the 4-bit table of its id for all real a,b (ring), maps [0,1]^2 into [0,1] (nra), "
             "the vectorised entries are the same polynomials, each emitted C template computes the table in every lane "
             "of unbounded operands and after wrap to 8/16/32/64 bits, operation names and both documented tables agree. "
             "Translators are cross-checked against the real callables and real gcc output on every run.",
        design_ref="DESIGN.md section 6 C04",
        note="Coq kernel; Reals axioms (sig_forall_dec, sig_not_dec, functional_extensionality_dep) under the real-valued "
             "theorems; translators translate/ops.py, translate/gatecode.py; gcc's two's-complement bitwise operators.",
        technique="Rocq/Coq proof over a model regenerated from source by translator (ring/nra/Z.testbit lemmas) + differential cross-check",
    ),
    "C01": dict(
        category="proof",
        text="Coq theorem for EVERY dense network (any depth, widths, wiring incl. self pairs, gates, leading Flatten), every "
             "word size and every input: the Gallina generator model gen_dense produces a program whose execution in the "
             "modelled C fragment succeeds and equals the reference circuit in every bit lane (induction over layers incl. the "
             "ping-pong buffers); composed with the proved pack/adder/unpack wrapper and host model it gives the per-class counts "
             "for every batch size, and 0/1 outputs without GroupSum. The generator model is tied to get_c_code() by parsing the "
             "emitted text of every sampled model and checking syntactic equality with gen_dense inside Coq; real gcc runs at "
             "-O0..-O3 on exhaustive inputs are compared with eval-mode PyTorch and the reference circuit.",
        design_ref="DESIGN.md section 6 C01",
        note="Coq kernel (theorems closed under the global context); strict C parser; gcc/clang on the straight-line fragment; "
             "PyTorch eval forward = reference circuit is exercised, not proved.",
        technique="Rocq/Coq proof (induction over the layer list of a generator model; Z.testbit lane lemmas) + text-equality and differential correspondence",
    ),
    "C05": dict(
        category="proof",
        text="Coq theorems: lane r of a packed word is row r's bit for every lane incl. the sign lane; for ANY lane-wise logic_net "
             "the host+wrapper model returns, for every batch size, map per_row rows (a function of each row alone; padding, "
             "position, other rows and W do not occur); every index used by the wrapper is inside its array for every number of "
             "words. Wrapper and host code are tied by token/statement equality translators, a recorder in place of lib_fn, real "
             "forward on sub-batches/permutations for batch sizes 1..3W+1, kernel evaluation of the model vs real runs, and an "
             "ASan/UBSan standalone driver.",
        design_ref="DESIGN.md section 6 C05",
        note="Coq kernel (closed theorems); translators translate/wrapper.py; numpy/ctypes behaviour observed, not proved; gcc shift semantics.",
        technique="Rocq/Coq proof (list/Z.testbit induction, refinement of host+wrapper to a per-row function) + differential and sanitizer correspondence",
    ),
    "C06": dict(
        category="proof",
        text="Coq theorems: GroupSum over exact rationals is count/tau per consecutive group for any leading shape and rejects "
             "non-divisible widths; the bit-sliced ripple-carry adder plus unpack returns the exact popcount in every lane for "
             "EVERY group size (induction on the added words, no-overflow invariant), and the translated width expression satisfies "
             "g < 2^width for all g. Tied by translators, exact comparison with torch GroupSum, a real compiled identity network "
             "realising every count 0..g for every g up to 40/300, and evaluation of the Python float width expression for all g up to 2^16/2^20.",
        design_ref="DESIGN.md section 6 C06",
        note="Coq kernel (closed theorems); translators; Python binary64 log2 beyond the checked range is assumed.",
        technique="Rocq/Coq proof (induction on accumulator/added words, Z.log2_up spec) + differential correspondence",
    ),
    "C11": dict(
        category="proof",
        text="Coq theorems: for EVERY well-formed dense model the generated logic_net runs without out-of-bounds index, "
             "uninitialised read or write to the input (exec = Some) and fills out; a verified checker safe_check (sound for all "
             "inputs and word sizes because success of the interpreter is value-independent) is evaluated in the kernel on the "
             "parsed emitted text of every sampled dense/conv2d/conv3d/pool/mixed model; the wrapper's index extents are proved "
             "for every number of words; exec is a function (no UB/unspecified order in the fragment). Supported by ASan/UBSan "
             "standalone builds at -O0/-O2 (gcc, clang) and cross-optimisation-level output comparison.",
        design_ref="DESIGN.md section 6 C11",
        note="Coq kernel (closed theorems); strict C parser; compilers trusted on the fragment; large predefined architectures only "
             "through the unverified Python mirror; stack exhaustion and signed-shift UB excluded (see DESIGN).",
        technique="Rocq/Coq proof (interpreter that fails on unsafe access; forall-model theorem for dense, verified per-program checker otherwise) + sanitizer runs",
    ),
    "C13": dict(
        category="proof",
        text="Coq theorems with the random draws universally quantified (every permutation = every seed): dense 'unique' wiring has "
             "a<b<n, no repeated pair, exactly out_dim pairs, and infeasible sizes are rejected; dense 'random' wiring is in range "
             "and covers every input when 2*out_dim >= in_dim; conv 'random-unique' pairs are distinct with i<j<P and distinct "
             "positions; tree levels are full binary (left++right is a permutation of the level's nodes). The hand-written model is "
             "tied by exact equality with layer.indices / kernel_pairs of real constructors under recorded draws.",
        design_ref="DESIGN.md section 6 C13",
        note="Coq kernel (closed theorems); torch.randperm/randint return permutations / in-range values (trusted); the slice-level "
             "mirror of get_unique_connections equals the closed form by kernel computation for in_dim <= 24 (bounded).",
        technique="Rocq/Coq proof (Permutation/NoDup reasoning over a model parameterised by the draws) + exact differential correspondence",
    ),
    "C07": dict(
        category="proof",
        text="Coq theorems over exact rationals (every float is one) on terms regenerated from the source: eval output = [form > 0] at the "
             "corner; the id reported by get_gate_ids has exactly the eval truth table (all 16 prediction patterns by kernel computation, "
             "lifted to all coefficient vectors); conv layers use the same rule; the compiler's _walsh_gate_ids computes the same "
             "function and is wired into both extraction sites; the 16 built-in vectors are exact +-1 expansions of 16 distinct gates; "
             "over R, logistic(x/tau) > 1/2 iff x > 0. Tied on all 81 sign/zero corner patterns at 5-10 magnitudes (exact dyadic "
             "coefficients) through dense and conv layers, get_gate_ids and the compiled library.",
        design_ref="DESIGN.md section 6 C07",
        note="Coq kernel; Reals axioms + Classical_Prop.classic under C07_soft only; translator translate/ops.py gen_walsh; float "
             "evaluation is exact only on the dyadic grid used (sum order of torch not modelled elsewhere).",
        technique="Rocq/Coq proof over Q (finite case analysis lifted by the sign pattern) and R (exp monotonicity) + exact differential correspondence",
    ),
    "C12": dict(
        category="proof",
        text="Coq theorems on the N-D convolution model, generic in the value type and the per-node function (eval and training alike): "
             "out[k][p] = kernel_tree k (window p of the zero-padded input) with one tree per kernel; equal windows give equal outputs "
             "(translation equivariance); the index tensor is relative index + stride * position; the number of positions per axis is "
             "floor((H+2p-rf)/s)+1 = len(arange) and every window fits the padded image; unravelled field positions are inside the field. "
             "Tied by exact equality of layer.indices with sliding_indices evaluated in the kernel and by eval/training forward vs "
             "per-window evaluation, output shapes and shifted images, 2-D and 3-D.",
        design_ref="DESIGN.md section 6 C12",
        note="Coq kernel (closed theorems); torch indexing/pad/meshgrid modelled; training outputs compared within 1e-5 of a float64 reference.",
        technique="Rocq/Coq proof (list/nth reasoning on a generic convolution model) + exact index-tensor correspondence",
    ),
    "C14": dict(
        category="proof",
        text="Coq theorems on a decision model of _parse_model + _validate_structure whose dispatch table and checks are regenerated "
             "from the source: if the constructor succeeds, no foreign/nested module occurs, every layer module is recorded in order, "
             "the GroupSum is unique and last, spatial layers form a prefix starting with a convolution, Flatten sits exactly between "
             "the spatial part and dense layers / GroupSum, shapes chain and the width divides by the classes (unbounded, by induction "
             "over index lists); foreign modules are rejected; accepted dense stacks are compiled faithfully (C01). Partial: 'foreign "
             "torch modules' is an open class represented by one kind. Tied by a 43-entry catalogue of containers built for real.",
        design_ref="DESIGN.md section 6 C14",
        note="Coq kernel (closed theorems); translator translate/parse.py; faithfulness of accepted conv/pool stacks per sampled model (and C02).",
        technique="Rocq/Coq proof on a decision model regenerated by translator + catalogue correspondence (raise vs compile vs outputs)",
    ),
    "C19": dict(
        category="proof",
        text="Coq theorems: for each public constructor / call the guard model (mirroring the asserts and raises in source order) rejects "
             "every configuration outside the domain listed by the property and accepts every one inside; every modelled guard is present "
             "in the current source (translator); conv padding defaults are the number 0. Tied by running the real component on an "
             "enumerated catalogue of invalid arguments crossed with valid random configurations and comparing raise-vs-return with the "
             "model evaluated in the kernel.",
        design_ref="DESIGN.md section 6 C19",
        note="Coq kernel (closed theorems); translator translate/guards.py (text presence of guards); any exception counts as rejection.",
        technique="Rocq/Coq proof on a decision model (case analysis, lia) + guard-presence translator + catalogue correspondence",
    ),
    "C20": dict(
        category="proof",
        text="Coq theorems for EVERY scale k >= 1, on layer lists regenerated by symbolic construction of each exported class: conv/pool "
             "output sizes, channel counts, Flatten products, dense in_dim and group-sum divisibility chain from the documented input "
             "shape to (batch, classes) (lia with div/mod equations); all 24 fixed-scale subclasses construct (argument plumbing through "
             "signature-checking stubs) and chain. Tied by building the real classes at k in {1,2} x {raw, walsh}, comparing per-layer "
             "shapes from forward hooks with the shape model in the kernel, finite outputs in train/eval, integer*(1/tau) in eval, baselines.",
        design_ref="DESIGN.md section 6 C20",
        note="Coq kernel (closed theorems); translator translate/models.py; large fixed-scale classes are not built for real.",
        technique="Rocq/Coq proof (lia over affine dimensions from a symbolic-construction translator) + forward-hook correspondence",
    ),
}

NOT_YET = "not yet built in this revision of /verif (work in progress; see DESIGN.md section 9 build order)"


def main():
    checks = []
    for pid in sorted(CLAIMS):
        c = CLAIMS[pid]
        checks.append({
            "property_id": pid,
            "quick_cmd": f"./check {pid} --tier quick",
            "thorough_cmd": f"./check {pid} --tier thorough",
            "evidence_file": f"/verif/evidence/{pid}.json",
            "replay_cmd_template": f"./check {pid} --replay {{path}}",
            "engine": "coq-tlx",
            "level_claimed": {"category": c["category"], "text": c["text"], "design_ref": c["design_ref"]},
            "level_note": c["note"],
            "technique": c["technique"],
        })
    allp = [json.loads(l)["id"] for l in open(os.path.join(VERIF, "properties.jsonl"))]
    na = [{"property_id": p, "reason": NOT_YET} for p in allp if p not in CLAIMS]
    m = {
        "version": 1,
        "setup_cmd": "./setup.sh",
        "hooks": {
            "guard": "TORCHLOGIX_VERIF",
            "enable": "no source hooks are needed; checks export TORCHLOGIX_VERIF=1 (ignored by the library)",
            "baseline_off_cmd": "cd /repo && /venv/bin/python -m pytest -ra -q -p no:cacheprovider --timeout=900 --continue-on-collection-errors",
            "source_commits": [],
            "add_only": True,
        },
        "engines": [{"name": "coq-tlx", "path": "/verif/coq", "serves_properties": sorted(CLAIMS),
                     "kind_free_text": "Coq 8.16.1 development (Model/ Proofs/ Props/ + Gen/ regenerated from /repo by /verif/translate) "
                                       "with a Python correspondence harness (/verif/harness) that runs the real PyTorch/gcc implementation "
                                       "against the model evaluated by coqc vm_compute"}],
        "checks": checks,
        "not_applicable": na,
        "notes": "Single entry point ./check <id>; see DESIGN.md.",
    }
    with open(os.path.join(VERIF, "MANIFEST.json"), "w") as f:
        json.dump(m, f, indent=1)


if __name__ == "__main__":
    main()
