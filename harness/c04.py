"""C04 — the 16 gate ids mean the same Boolean function in every representation."""
import ctypes
import os
import subprocess
from fractions import Fraction

import numpy as np
import torch

from harness import coqio, nets
from harness import common
from harness.common import Check, REPO, read_src
from translate import ops as t_ops, gatecode as t_gc

THEOREMS = ["C04_multilinear", "C04_table_size", "C04_boolean_agree", "C04_range", "C04_vectorised",
            "C04_c_template", "C04_c_template_words", "C04_casts", "C04_names", "C04_docs", "C04_docs_worded", "C04_comment"]

TRUSTED = [
    "Coq 8.16.1 kernel, coqc; vm_compute used for finite enumerations (16 gates x 4 corners); no native_compute",
    "axioms under the real-number theorems (C04_multilinear, C04_boolean_agree, C04_range, C04_vectorised): "
    "ClassicalDedekindReals.sig_forall_dec, sig_not_dec, FunctionalExtensionality.functional_extensionality_dep "
    "(Coq standard library Reals); the bit-level theorems are closed under the global context",
    "translators /verif/translate/ops.py and gatecode.py (Python ast -> Gallina; fail-closed); cross-checked by "
    "evaluating the real lambdas / real gcc-compiled templates against the translated terms on the same inputs",
    "gcc implements ~ & | ^ on signed integers as two's complement and narrowing casts as reduction modulo 2^W",
]


def tt(g, a, b):
    return (g >> (3 - (2 * a + b))) & 1


def grid(ck, n):
    pts = [Fraction(x, 4) for x in range(-4, 9)]
    prs = [(a, b) for a in (0, 1) for b in (0, 1)]
    prs = [(Fraction(a), Fraction(b)) for a, b in prs]
    while len(prs) < n:
        prs.append((ck.rng.choice(pts), ck.rng.choice(pts)))
    return prs


def real_ops(ck, pts):
    """Evaluate the real callables; returns (ID_TO_OP values, vectorised values, bin_op_s one-hot values)."""
    import torchlogix.functional as F
    a = torch.tensor([float(p[0]) for p in pts], dtype=torch.float64)
    b = torch.tensor([float(p[1]) for p in pts], dtype=torch.float64)
    n = len(F.ID_TO_OP)
    v1 = [[Fraction(float(x)) for x in (F.ID_TO_OP[i](a, b) * torch.ones_like(a)).tolist()] for i in range(n)]
    vec = F.compute_all_logic_ops_vectorized(a, b)
    v2 = [[Fraction(float(x)) for x in vec[..., i].tolist()] for i in range(vec.shape[-1])]
    v3 = []
    for i in range(16):
        w = torch.zeros(len(pts), 16, dtype=torch.float64)
        w[:, i] = 1.0
        r = F.bin_op_s(a.unsqueeze(0), b.unsqueeze(0), w.unsqueeze(0))[0]
        v3.append([Fraction(float(x)) for x in r.tolist()])
    return v1, v2, v3


def compile_templates(ck, W, vecs):
    """Real get_gate_code text for every gate, compiled by real gcc; returns res[g][k]."""
    import torchlogix.compiled_model as CM
    net = CM.CompiledLogicNet(None, num_bits=W)
    T = CM.BITS_TO_DTYPE[W]
    lines = ["#include <stddef.h>", f"void run({T} const *x, {T} const *y, {T} *out, size_t n) {{",
             "  for (size_t k = 0; k < n; ++k) {"]
    for g in range(16):
        lines.append(f"    out[{g} * n + k] = {net.get_gate_code('x[k]', 'y[k]', g)};")
    lines += ["  }", "}"]
    cpath = os.path.join(ck.scratch, f"tmpl{W}.c")
    so = os.path.join(ck.scratch, f"tmpl{W}.so")
    open(cpath, "w").write("\n".join(lines))
    subprocess.run(["gcc", "-shared", "-fPIC", "-O1", "-o", so, cpath], check=True)
    lib = ctypes.CDLL(so)
    npdt = CM.BITS_TO_NP_DTYPE[W]
    x = np.array([v[0] for v in vecs], dtype=npdt)
    y = np.array([v[1] for v in vecs], dtype=npdt)
    out = np.zeros(16 * len(vecs), dtype=npdt)
    ptr = lambda arr: arr.ctypes.data_as(ctypes.c_void_p)
    lib.run(ptr(x), ptr(y), ptr(out), ctypes.c_size_t(len(vecs)))
    return out.reshape(16, len(vecs)).tolist(), [net.get_gate_code("A", "B", g) for g in range(16)]


def signed(v, W):
    v &= (1 << W) - 1
    return v - (1 << W) if v >> (W - 1) else v


def correspond(ck):
    n = 40 if ck.tier == "quick" else 400
    pts = grid(ck, n)
    # --- relaxations: implementation vs the property's table (corners) and vs the translated model
    v1, v2, v3 = real_ops(ck, pts)
    if len(v1) != 16 or len(v2) != 16:
        ck.disagree("number of relaxed gates is not 16", {"n_ops": len(v1), "n_vectorised": len(v2)},
                    signature={"what": "table-size"})
    for i in range(min(16, len(v1))):
        for k, (a, b) in enumerate(pts):
            case = {"repr": "ID_TO_OP", "gate": i, "a": str(a), "b": str(b)}
            ml = sum(tt(i, x, y) * (a if x else 1 - a) * (b if y else 1 - b) for x in (0, 1) for y in (0, 1))
            ck.case(case, nontrivial=(i not in (0, 15)), kind="relaxation")
            if v1[i][k] != ml:
                ck.disagree("relaxation of gate is not the multilinear extension of its table", case,
                            expected=str(ml), observed=str(v1[i][k]), signature={"repr": "ID_TO_OP", "gate": i})
            if i < len(v2) and v2[i][k] != ml:
                ck.disagree("vectorised relaxation differs from the multilinear extension", dict(case, repr="vectorised"),
                            expected=str(ml), observed=str(v2[i][k]), signature={"repr": "vectorised", "gate": i})
            if v3[i][k] != ml:
                ck.disagree("bin_op_s with one-hot weight differs from the gate", dict(case, repr="bin_op_s"),
                            expected=str(ml), observed=str(v3[i][k]), signature={"repr": "bin_op_s", "gate": i})
    # model side (translated terms evaluated in the kernel)
    if os.path.exists(os.path.join(ck_gen(), "Ops.vo")):
        qs = "[" + "; ".join(f"({coqio.qlit(a)}, {coqio.qlit(b)})" for a, b in pts) + "]"
        txt = ("From Coq Require Import QArith List. Import ListNotations.\n"
               "From TLX Require Import Model.Poly Gen.Ops.\n"
               f"Definition pts : list (Q*Q) := {qs}.\n"
               "Definition show (q : Q) := let r := Qred q in (Qnum r, Zpos (Qden r)).\n"
               "Eval vm_compute in map (fun i => map (fun p => show (peval_Q (op i) (fst p) (snd p))) pts) (seq 0 16).\n"
               "Eval vm_compute in map (fun i => map (fun p => show (peval_Q (opvec i) (fst p) (snd p))) pts) (seq 0 16).\n")
        rc, out, err = ck.coq_eval("c04ops", txt)
        if rc != 0:
            ck.broke("correspondence", "model evaluation (ops)", err[-500:])
        else:
            m1, m2 = coqio.parse_evals(out)
            for i in range(16):
                for k in range(len(pts)):
                    for nm, mv, iv in (("op", m1, v1), ("opvec", m2, v2)):
                        if i < len(iv) and Fraction(mv[i][k][0], mv[i][k][1]) != iv[i][k]:
                            ck.broke("correspondence", f"Gen/Ops.v {nm} {i}",
                                     f"translated term differs from the real callable at a={pts[k][0]} b={pts[k][1]}: "
                                     f"model {mv[i][k]} impl {iv[i][k]}")
            ck.count("model_vs_impl_relaxation_points", 32 * len(pts))
    # --- C templates through real gcc, all word sizes, all lanes
    nv = 24 if ck.tier == "quick" else 300
    for W in (8, 16, 32, 64):
        vecs = [(0, 0), (0, -1), (-1, 0), (-1, -1), (signed(1 << (W - 1), W), 0), (signed(1 << (W - 1), W), -1),
                (signed(0x5555555555555555, W), signed(0x3333333333333333, W))]
        while len(vecs) < nv:
            vecs.append((signed(ck.rng.getrandbits(W), W), signed(ck.rng.getrandbits(W), W)))
        try:
            res, texts = compile_templates(ck, W, vecs)
        except Exception as e:
            ck.broke("correspondence", f"compile templates W={W}", repr(e))
            continue
        for g in range(16):
            for k, (x, y) in enumerate(vecs):
                r = res[g][k]
                case = {"repr": "C", "W": W, "gate": g, "x": x, "y": y, "text": texts[g]}
                ck.case(case, nontrivial=(x not in (0, -1) or y not in (0, -1)), kind=f"template_W{W}")
                for j in range(W):
                    if ((r >> j) & 1) != tt(g, (x >> j) & 1, (y >> j) & 1):
                        ck.disagree("emitted C expression computes the wrong table in a lane", dict(case, lane=j),
                                    expected=tt(g, (x >> j) & 1, (y >> j) & 1), observed=(r >> j) & 1,
                                    signature={"repr": "C", "gate": g})
                        break
        if os.path.exists(os.path.join(ck_gen(), "GateCode.vo")):
            txt = ("From Coq Require Import ZArith List. Import ListNotations.\n"
                   "From TLX Require Import Model.Bits Gen.GateCode.\nOpen Scope Z_scope.\n"
                   f"Definition vecs : list (Z*Z) := [{'; '.join(f'(({x}), ({y}))' for x, y in vecs)}].\n"
                   f"Eval vm_compute in map (fun g => match template g with Some e => map (fun p => wrap {W} (ceval e (fst p) (snd p))) vecs | None => [] end) (seq 0 16).\n")
            rc, out, err = ck.coq_eval("c04tmpl", txt)
            if rc != 0:
                ck.broke("correspondence", "model evaluation (templates)", err[-500:])
            else:
                mv = coqio.parse_evals(out)[0]
                for g in range(16):
                    if list(mv[g]) != list(res[g]):
                        ck.broke("correspondence", f"Gen/GateCode.v template {g} W={W}",
                                 f"translated template differs from compiled text {texts[g]!r}")
                ck.count("model_vs_impl_template_words", 16 * len(vecs))
    # --- documented tables vs tt (direct)
    for name, rows in (("comment", parse_table_rows("comment")), ("docs", parse_table_rows("docs"))):
        seen = set()
        for r in rows:
            g = r[0]
            seen.add(g)
            case = {"repr": name, "gate": g, "row": r[1]}
            ck.case(case, kind="doc_table")
            exp = [tt(g, 0, 0), tt(g, 0, 1), tt(g, 1, 0), tt(g, 1, 1)]
            if r[1] != exp:
                ck.disagree(f"{name} table row disagrees with the gate's table", case, expected=exp, observed=r[1],
                            signature={"repr": name, "gate": g})
        if seen != set(range(16)):
            ck.disagree(f"{name} table does not list exactly gates 0..15", {"repr": name, "ids": sorted(seen)},
                        signature={"repr": name, "what": "ids"})


def ck_gen():
    from harness.common import GEN
    return GEN


def parse_table_rows(which):
    import re
    rows = []
    if which == "comment":
        lines = [l[1:].strip() for l in read_src("src/torchlogix/functional.py").splitlines() if l.startswith("# |")]
        cols = [2, 3, 4, 5]
    else:
        doc = read_src("docs/guides/logic_gates.md").splitlines()
        lines, cols, on = [], None, False
        for l in doc:
            if l.startswith("|") and "AB=00" in l and not on:
                hdr = [c.strip() for c in l.strip().strip("|").split("|")]
                cols = [hdr.index(x) for x in ("AB=00", "AB=01", "AB=10", "AB=11")]
                on = True
                continue
            if on:
                if not l.startswith("|"):
                    break
                lines.append(l)
    for l in lines:
        cells = [c.strip() for c in l.strip().strip("|").split("|")]
        if cells and re.fullmatch(r"\d+", cells[0]) and cols and len(cells) > max(cols):
            try:
                rows.append((int(cells[0]), [int(cells[c]) for c in cols]))
            except ValueError:
                rows.append((int(cells[0]), [cells[c] for c in cols]))
    return rows


def in_place(ck):
    """The emitted expression where the generator puts it: one neuron / kernel per gate id inside a compiled dense layer and inside
    compiled convolutions of tree depth 0 and 1 (2-D and 3-D); every Boolean input, smallest and widest word.  A and B are the FIRST and
    the SECOND wired input of the gate (an emitter that hands get_gate_code the operands in the other order computes the table of
    another id for the eight asymmetric gates)."""
    import itertools
    from harness import compiled
    from torchlogix.layers import LogicDense, LogicConv2d, LogicConv3d
    gates = list(range(16))

    def passthrough(param):
        with torch.no_grad():
            param.fill_(-4.0)
            param[:, 3] = 4.0                                # gate 3 = A

    def build(kind):
        torch.manual_seed(ck.seed + 404)
        if kind == "dense":
            layer = LogicDense(2, 16, device="cpu")
            layer.indices = (torch.zeros(16, dtype=torch.long), torch.ones(16, dtype=torch.long))
            nets.set_gates(ck.rng, layer, gates, "raw")
            return torch.nn.Sequential(layer), (2,), [(0, 1)] * 16
        dims, depth = (2 if "2d" in kind else 3), int(kind[-1])
        cls = LogicConv2d if dims == 2 else LogicConv3d
        layer = cls(in_dim=2, device="cpu", channels=1, num_kernels=16, tree_depth=depth, receptive_field_size=2,
                    connections="random-unique")
        pa, pb = layer.kernel_pairs
        side = [2] * dims

        def flat(coord):                                     # (spatial..., channel) -> position in the flattened (C, spatial...) sample
            idx = 0
            for c_, n_ in zip(coord[:dims], side):
                idx = idx * n_ + int(c_)
            return idx
        wired = []
        for k in range(16):
            if depth == 0:
                wired.append((flat(pa[k][0].tolist()), flat(pb[k][0].tolist())))
            else:                                            # first-level gates pass their first input on; the root gate is the probed one
                wired.append((flat(pa[k][0].tolist()), flat(pa[k][1].tolist())))
        if depth == 0:
            nets.set_gates(ck.rng, layer.tree_weights[0][0], gates, "raw")
        else:
            for node in layer.tree_weights[0]:
                passthrough(node)
            nets.set_gates(ck.rng, layer.tree_weights[1][0], gates, "raw")
        return torch.nn.Sequential(layer, torch.nn.Flatten()), tuple([1] + side), wired

    for kind in ("dense", "conv2d-depth0", "conv2d-depth1", "conv3d-depth0", "conv3d-depth1"):
        for W in (8, 64):
            case = {"repr": "C-in-place", "emitter": kind, "W": W}
            ck.case(case, nontrivial=True, kind="in-place")
            try:
                model, shape, wired = build(kind)
                model.eval()
                n_in = int(np.prod(shape))
                rows = [list(bits) for bits in itertools.product([0, 1], repeat=n_in)]
                rows = rows * (1 + (W + 1) // len(rows))            # more than one machine word
                net = compiled.build(model, W)
                compiled.compile_net(net, opt=1)
                got = compiled.forward(net, np.array(rows, dtype=bool).reshape((len(rows),) + shape))
            except Exception as e:
                ck.broke("correspondence", f"gate expressions in place ({kind}, W={W})", repr(e)[:300])
                continue
            done = False
            for r, row in enumerate(rows):
                for g in range(16):
                    a, b = row[wired[g][0]], row[wired[g][1]]
                    if int(got[r][g]) != tt(g, a, b):
                        table = ""
                        for ab in ((0, 0), (0, 1), (1, 0), (1, 1)):
                            rr = next(i for i, x in enumerate(rows) if (x[wired[g][0]], x[wired[g][1]]) == ab)
                            table += str(int(got[rr][g]))
                        ck.disagree("a gate emitted inside a compiled layer computes the table of another id",
                                    dict(case, gate=g, first_input=wired[g][0], second_input=wired[g][1], input_row=row,
                                         computed_table_AB_00_01_10_11=table),
                                    expected=tt(g, a, b), observed=int(got[r][g]), signature={"repr": "C-in-place", "emitter": kind, "gate": g})
                        done = True
                        break
                if done:
                    break


def run(ck: Check):
    ck.trusted = TRUSTED
    ck.rule = ("systematic: 16 gates x (4 Boolean corners + random dyadic points) for the three Python representations; "
               "16 gates x 4 word sizes x operand words (all-zero/all-one/sign-bit/alternating/random) through real gcc, "
               "every lane compared; all rows of both documented tables. Non-trivial: gate not constant / operands not "
               "both constant words. Distinct = distinct canonical JSON of the case.")
    ok = True
    ok &= ck.translate("Ops", t_ops.gen_ops)
    ok &= ck.translate("GateCode", t_gc.gen_gatecode)
    ok &= ck.translate("Tables", t_ops.gen_tables)
    ck.prove("Props/C04", THEOREMS)
    # which documented rows (0/1 columns or worded columns) are not the function of their id: evaluated in the kernel, so that a
    # wrong row is reported as a concrete finding and not only as a proof that no longer checks
    rc, out, err = ck.coq_eval("c04docs", (
        "From Coq Require Import List Bool Arith. Import ListNotations.\nFrom TLX Require Import Model.Bits Gen.Tables.\n"
        "Definition bad_worded := map fst (filter (fun r : nat * list (bool -> bool -> bool) => negb (forallb (fun f => forallb (fun a => "
        "forallb (fun b => Bool.eqb (f a b) (tt (fst r) a b)) [false; true]) [false; true]) (snd r))) docs_worded).\n"
        "Definition bad_bits (t : list (nat * (bool * bool * bool * bool))) := map fst (filter (fun r => let '(g, (a, b, c, d)) := r in "
        "negb (Bool.eqb a (tt g false false) && Bool.eqb b (tt g false true) && Bool.eqb c (tt g true false) && Bool.eqb d (tt g true true))) t).\n"
        "Eval vm_compute in (bad_worded, bad_bits docs_table, bad_bits comment_table).\n"))
    if rc != 0:
        ck.broke("correspondence", "kernel evaluation of the documented tables", err[-400:])
    else:
        bw, bd, bc = coqio.parse_evals(out)[0]
        doc_lines = [l for l in open(os.path.join(common.REPO, "docs/guides/logic_gates.md"), encoding="utf-8") if l.startswith("|")]
        for what, ids in (("worded cells (operation / name / formula)", bw), ("0/1 columns of the docs table", bd), ("comment table in functional.py", bc)):
            for g in ids:
                row = next((l.strip() for l in doc_lines if l.split("|")[1].strip() == str(g)), None)
                ck.disagree(f"documented gate table: {what} of id {g} are not the Boolean function of the id", {"gate": g, "row": row},
                            expected=[nets.tt(g, a, b) for a in (0, 1) for b in (0, 1)], signature={"what": "docs", "gate": g})
        ck.count("documented_rows_checked", 16)
    correspond(ck)
    in_place(ck)
    return ck.finish()


def replay(ck: Check, path):
    return run(ck)
