"""C08 — soft training forward is the documented relaxation and stays inside [0,1]."""
import itertools

import numpy as np
import torch

from harness import coqio, nets
from harness import protocols
from harness.common import Check
from harness.c12 import soft_gate
from translate import dispatch as t_disp, ops as t_ops

THEOREMS = ["C08_softmax_simplex", "C08_mixture_is_loop", "C08_mixture_range", "C08_sigmoid_range", "C08_tree_range_raw",
            "C08_tree_range_walsh", "C08_saturated", "C08_dispatch"]
TRUSTED = [
    "Coq 8.16.1 kernel/coqc; theorems over R depend on the standard-library axioms of Reals (ClassicalDedekindReals.sig_forall_dec, "
    "sig_not_dec, FunctionalExtensionality.functional_extensionality_dep) and Classical_Prop.classic; the dispatch theorem is closed",
    "translators translate/dispatch.py and translate/ops.py",
    "the R-valued model Model/Relax.v is hand-written; it is tied to the implementation (run in float64 via layer.double()) by "
    "(i) lemmas |model - observed| <= 1e-9 generated per sampled (weights, temperature, input) and closed by the `interval` tactic "
    "(checked by Qed) and (ii) a numpy float64 mirror for volume; float32 rounding itself is not proved (range checked with 1e-6 slack)",
]


def softmax(v):
    e = np.exp(v - np.max(v))
    return e / e.sum()


def mix_expr(w, tau, a, b):
    return f"mix (soft_raw [{'; '.join(coqio.rlit(x) for x in w)}] {coqio.rlit(tau)}) {coqio.rlit(a)} {coqio.rlit(b)}"


def walsh_expr(w, tau, a, b):
    return (f"soft_walsh (wform {coqio.rlit(w[0])} {coqio.rlit(w[1])} {coqio.rlit(w[2])} {coqio.rlit(w[3])} {coqio.rlit(a)} {coqio.rlit(b)}) "
            f"{coqio.rlit(tau)}")


def run(ck: Check):
    from torchlogix.layers import LogicDense, LogicConv2d, LogicConv3d
    ck.trusted = TRUSTED
    ck.rule = ("dense / conv2d / conv3d layers in training mode with forward_sampling='soft', random weights, temperature in {0.2, 1, 5}, "
               "inputs uniform in [0,1] plus Boolean corners, raw and Walsh, conv depth 1..3 with >= 2 kernels: float64 layer output vs "
               "the documented mixture (numpy mirror, 1e-9) and vs the Coq model through `interval` lemmas for a subset; native float32 "
               "range check; saturated logits on Boolean inputs vs eval. Non-trivial: temperature != 1 or depth >= 2. "
               "Distinct = canonical JSON of (layer kind, geometry, temperature, seed).")
    ck.translate("Dispatch", t_disp.gen_dispatch)
    ck.translate("Ops", t_ops.gen_ops)
    ck.prove("Props/C08", THEOREMS)
    rng = ck.rng
    goals = []
    reps = 2 if ck.tier == "quick" else 10
    # ---------------- dense
    for rep in range(reps):
        for par in ("raw", "walsh"):
            for tau in (0.2, 1.0, 5.0):
                torch.manual_seed(ck.seed * 7 + rep * 3 + int(tau * 10))
                n_in, n_out = rng.randrange(2, 6), rng.randrange(2, 7)
                l = LogicDense(n_in, n_out, device="cpu", parametrization=par, weight_init="random", temperature=tau, forward_sampling="soft")
                with torch.no_grad():
                    l.weight.mul_(rng.choice([1.0, 3.0]))
                case = {"layer": "dense", "param": par, "tau": tau, "in": n_in, "out": n_out, "rep": rep}
                ck.case(case, nontrivial=tau != 1.0, kind=f"dense-{par}")
                x = torch.rand(6, n_in)
                x[0] = (torch.rand(n_in) > 0.5).float()
                l.train()
                with torch.no_grad():
                    y32 = l(x)
                if not (float(y32.min()) >= -1e-6 and float(y32.max()) <= 1 + 1e-6):      # NaN is outside too
                    ck.disagree("soft training activation outside [0,1]", case, observed=[float(y32.min()), float(y32.max())],
                                signature={"layer": "dense", "param": par, "what": "range"})
                # a 0/1 batch stored in an integer or half dtype is the same batch (an exception is not a wrong value)
                xbool = (torch.rand(5, n_in) > 0.5)
                with torch.no_grad():
                    yref = l(xbool.float())
                for dt in (torch.int64, torch.int32, torch.uint8, torch.float16):
                    try:
                        with torch.no_grad():
                            yv = l(xbool.to(dt))
                    except Exception:
                        ck.count("dtype_variant_rejected")
                        continue
                    ck.count("dtype_variant_checks")
                    if not (float((yv.double() - yref.double()).abs().max()) <= 1e-3):
                        ck.disagree("soft training output on a 0/1 batch depends on the dtype the batch is stored in",
                                    dict(case, dtype=str(dt)), expected=yref[0].tolist(), observed=yv[0].tolist(),
                                    signature={"layer": "dense", "param": par, "what": "dtype"})
                ld = l.double()
                with torch.no_grad():
                    y = ld(x.double()).numpy()
                w = ld.weight.detach().numpy()
                ia, ib = l.indices[0].tolist(), l.indices[1].tolist()
                xs = x.double().numpy()
                bad = None
                for r in range(xs.shape[0]):
                    for i in range(n_out):
                        a, b = xs[r, ia[i]], xs[r, ib[i]]
                        if par == "raw":
                            ref = soft_gate(softmax(w[i] / tau), a, b)
                        else:
                            A, B = 2 * a - 1, 2 * b - 1
                            ref = 1 / (1 + np.exp(-(w[i, 0] + w[i, 1] * A + w[i, 2] * B + w[i, 3] * A * B) / tau))
                        if abs(ref - y[r, i]) > 1e-9 and bad is None:
                            bad = (r, i, float(ref), float(y[r, i]))
                        if r < 1 and i < 2 and len(goals) < (10 if ck.tier == "quick" else 60):
                            expr = mix_expr(w[i], tau, a, b) if par == "raw" else walsh_expr(w[i], tau, a, b)
                            goals.append((f"dense-{par}-tau{tau}-rep{rep}-n{i}", expr, float(y[r, i]), 1e-9, dict(case, neuron=i, a=float(a), b=float(b))))
                if bad:
                    r, i, ref, got = bad
                    ck.disagree("soft training output differs from the documented relaxation", dict(case, neuron=i, x=xs[r].tolist(), w=w[i].tolist()),
                                expected=ref, observed=got, signature={"layer": "dense", "param": par, "what": "formula"})
                ck.count("dense_outputs_compared", xs.shape[0] * n_out)
    # ---------------- saturated gate choice on Boolean inputs = eval
    for par in ("raw", "walsh"):
        n_in, n_out = 4, 16
        l = LogicDense(n_in, n_out, device="cpu", parametrization=par, weight_init="random", forward_sampling="soft",
                       temperature=rng.choice([0.5, 1.0, 2.0]))
        gl = list(range(16))
        if par == "raw":
            with torch.no_grad():
                l.weight.zero_()
                for i, g in enumerate(gl):
                    l.weight[i, g] = 2000.0      # exp(-2000/tau) underflows to 0: the softmax is exactly one-hot in binary32
        else:
            tab = nets.walsh_table()
            with torch.no_grad():
                l.weight.copy_(torch.tensor([[v * 4096.0 for v in tab[g]] for g in gl]))   # logistic(+-4096/tau) is exactly 1 / 0
        xb = torch.tensor(nets.all_rows(n_in), dtype=torch.float32)
        with torch.no_grad():
            yt = l.train()(xb)
            ye = l.eval()(xb)
        ck.case({"layer": "dense", "param": par, "saturated": True}, kind="saturated")
        if not torch.equal(yt, ye):
            ck.disagree("saturated soft output on Boolean inputs differs from the eval output", {"param": par},
                        observed=float((yt - ye).abs().max()), signature={"layer": "dense", "param": par, "what": "saturated"})
    # ---------------- saturated by the TEMPERATURE: ordinary random logits, a temperature near the smallest float (and below it).
    # softmax(logits / tau) is then the one-hot of the largest logit (logistic(form / tau) the sign of the form): finite, inside [0,1]
    # and equal to eval on Boolean inputs - logits / tau must not overflow into NaN on the way (F63, F65)
    from torchlogix.layers import LogicConv2d as _C2s
    for tau in (1e-38, 3e-39, 1e-46):
        for par in ("raw", "walsh"):
            for kind in ("dense", "conv"):
                torch.manual_seed(ck.seed + 31)
                if kind == "dense":
                    l = LogicDense(4, 24, device="cpu", parametrization=par, weight_init="random", forward_sampling="soft", temperature=tau)
                    xb = torch.tensor(nets.all_rows(4), dtype=torch.float32)
                else:
                    l = _C2s(in_dim=(3, 3), device="cpu", channels=1, num_kernels=6, tree_depth=2, receptive_field_size=2, parametrization=par,
                             weight_init="random", forward_sampling="soft", temperature=tau)
                    xb = torch.tensor(nets.all_rows(9)[::7], dtype=torch.float32).reshape(-1, 1, 3, 3)
                case = {"layer": kind, "param": par, "tau": tau, "saturated_by": "temperature"}
                ck.case(case, nontrivial=True, kind="saturated")
                with torch.no_grad():
                    yt = l.train()(xb)
                    ye = l.eval()(xb)
                nan = int(torch.isnan(yt).sum())
                if nan or not bool(((yt >= 0) & (yt <= 1)).all()):
                    ck.disagree("soft training output is not a finite value in [0,1] at a tiny positive temperature", dict(case, nan_values=nan, values=int(yt.numel())),
                                signature={"layer": kind, "param": par, "what": "tiny-temperature-range"})
                elif not torch.equal(yt, ye):
                    ck.disagree("soft output saturated by a tiny temperature differs from the eval output on Boolean inputs", dict(case, differing=int((yt != ye).sum())),
                                observed=float((yt - ye).abs().max()), signature={"layer": kind, "param": par, "what": "saturated"})
    # ---------------- conv layers: per-window soft tree
    from harness.c12 import make_layer, per_window
    for rep in range(reps * 4):
        dims = 3 if rep % 4 == 3 else 2
        par = "walsh" if (dims == 2 and rep % 2 == 1) else "raw"
        tau = [0.2, 1.0, 5.0][rep % 3] if dims == 2 else 1.0
        torch.manual_seed(ck.seed * 13 + rep)
        for _ in range(20):
            l, geo = make_layer(rng, dims, param=par)
            if geo["kernels"] >= 2:
                break
        if dims == 2:
            l.temperature = tau
            l.forward_sampling = "soft"
        case = dict(geo, layer=f"conv{dims}d", param=par, tau=tau, rep=rep)
        ck.case(case, nontrivial=(tau != 1.0 or geo["depth"] >= 2), kind=f"conv{dims}d-{par}")
        shape = [geo["channels"]] + geo["in_dim"]
        x = torch.rand(2, *shape)
        l.train()
        with torch.no_grad():
            y32 = l(x)
        if not (float(y32.min()) >= -1e-6 and float(y32.max()) <= 1 + 1e-6):      # NaN is outside too
            ck.disagree("soft training activation outside [0,1]", case, signature={"layer": f"conv{dims}d", "param": par, "what": "range"})
        ld = l.double()
        with torch.no_grad():
            y = ld(x.double()).numpy()
        if par == "raw":
            weights = [[w.detach().numpy() / tau for w in lv] for lv in ld.tree_weights]
            weights = [[[w[k] for k in range(geo["kernels"])] for w in lv] for lv in weights]
            for b in range(2):
                ref = per_window(l, geo, x[b].double().numpy(), "train", weights)
                if np.max(np.abs(ref - y[b])) > 1e-9:
                    ck.disagree("conv soft training output differs from the documented relaxation (per-window mixture tree)",
                                dict(case, maxdiff=float(np.max(np.abs(ref - y[b])))), signature={"layer": f"conv{dims}d", "param": par, "what": "formula"})
                    break
        else:
            wts = [[w.detach().numpy() for w in lv] for lv in ld.tree_weights]
            for b in range(2):
                ref = per_window_walsh(l, geo, x[b].double().numpy(), wts, tau)
                if np.max(np.abs(ref - y[b])) > 1e-9:
                    ck.disagree("Walsh conv soft training output differs from logistic(form/temperature) per tree level",
                                dict(case, maxdiff=float(np.max(np.abs(ref - y[b])))), signature={"layer": "conv2d", "param": "walsh", "what": "formula"})
                    break
        ck.count("conv_outputs_compared", int(np.prod(y.shape)))
    # ---------------- upper tree levels wired otherwise than the constructor does (the wiring of every level is a public, persisted
    # attribute: a checkpoint may hold any pairing): each node must read ITS two wired inputs, here (0,2),(1,3) instead of (0,1),(2,3)
    from torchlogix.layers import LogicConv2d as _LC2
    for mode_u in ("soft", "eval"):
        torch.manual_seed(ck.seed * 17 + 3)
        lu = _LC2(in_dim=(3, 4), device="cpu", channels=2, num_kernels=2, tree_depth=2, receptive_field_size=2, parametrization="raw",
                  weight_init="random", forward_sampling="soft", temperature=1.0, padding=1)
        geo_u = {"dims": 2, "in_dim": [3, 4], "padding": 1, "rf": 2, "rfs": [2, 2], "stride": 1, "channels": 2, "kernels": 2, "depth": 2}
        lu.indices[1] = (torch.tensor([0, 1]), torch.tensor([2, 3]))
        up_w = [([0, 1], [2, 3]), ([0], [1])]
        lu = lu.double()
        xu = torch.rand(1, 2, 3, 4, dtype=torch.float64) if mode_u == "soft" else (torch.rand(1, 2, 3, 4) > 0.5).double()
        lu.train(mode_u == "soft")
        with torch.no_grad():
            yu = lu(xu)[0].numpy()
        wu = [[[w.detach().numpy()[k] for k in range(2)] for w in lv] for lv in lu.tree_weights]
        ref_u = per_window(lu, geo_u, xu[0].numpy(), "train" if mode_u == "soft" else "eval", wu, upper=up_w)
        case_u = {"layer": "conv2d", "param": "raw", "mode": mode_u, "upper_level_wiring": "(0,2),(1,3)"}
        ck.case(case_u, nontrivial=True, kind="conv-upper-wiring")
        if np.max(np.abs(ref_u - yu)) > 1e-9:
            ck.disagree("a node of an upper tree level does not read its two wired inputs (layer.indices[level] is ignored)",
                        dict(case_u, maxdiff=float(np.max(np.abs(ref_u - yu)))), signature={"layer": "conv2d", "what": "upper-wiring", "mode": mode_u})
    # ---------------- a large batch (processing in pieces must not lose or corrupt rows)
    protocols.large_batch_rows(ck, train=True)
    protocols.dtype_variants(ck, train=True)
    protocols.empty_batch(ck, train=True)
    # ---------------- the Coq model itself: interval lemmas
    failed = coqio.interval_goals(ck, "c08itv", [(g[0], g[1], g[2], g[3]) for g in goals])
    ck.count("interval_lemmas", len(goals))
    for lab in failed:
        g = next(x for x in goals if x[0] == lab)
        ck.disagree("layer output is not within 1e-9 of the Coq model of the documented relaxation (interval lemma fails)", g[4],
                    observed=g[2], signature={"what": "interval", "layer": "dense"})
    return ck.finish()


def per_window_walsh(l, geo, x, wts, tau):
    dims, n, pad, rf, s = geo["dims"], geo["in_dim"], geo["padding"], geo["rf"], geo["stride"]
    C, K, depth = geo["channels"], geo["kernels"], geo["depth"]
    outs = [(v + 2 * pad - rf) // s + 1 for v in n]
    pa, pb = [t.tolist() for t in l.kernel_pairs]
    xp = np.zeros([C] + [v + 2 * pad for v in n], dtype=np.float64)
    xp[(slice(None),) + tuple(slice(pad, pad + v) for v in n)] = x
    res = np.zeros([K] + outs, dtype=np.float64)

    def node(lev, j, k, a, b):
        w = wts[lev][j][k]
        A, B = 2 * a - 1, 2 * b - 1
        return 1 / (1 + np.exp(-(w[0] + w[1] * A + w[2] * B + w[3] * A * B) / tau))
    for k in range(K):
        for pos in itertools.product(*[range(o) for o in outs]):
            start = [q * s for q in pos]
            cur = []
            for g in range(2 ** depth):
                ra, rb = pa[k][g], pb[k][g]
                va = xp[(ra[-1],) + tuple(st + r for st, r in zip(start, ra[:-1]))]
                vb = xp[(rb[-1],) + tuple(st + r for st, r in zip(start, rb[:-1]))]
                cur.append(node(0, g, k, va, vb))
            for lev in range(1, depth + 1):
                cur = [node(lev, j, k, cur[2 * j], cur[2 * j + 1]) for j in range(len(cur) // 2)]
            res[(k,) + pos] = cur[0]
    return res


def replay(ck, path):
    return run(ck)
