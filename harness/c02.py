"""C02 — compiled conv / pool / mixed network equals the eval-mode PyTorch model."""
import numpy as np
import torch

from harness import coqio, cparse, nets, compiled, gennet, protocols
from harness.common import Check
from translate import gatecode as t_gc, wrapper as t_wr

LEVEL = "proof"
THEOREMS = ["C02_logic_net", "C02_pool_wf", "C02_reference", "C02_net_counts", "C02_emitted_counts", "C02_net_direct", "C02_validator_sound", "C02_gate_templates", "C02_counts"]
TRUSTED = [
    "Coq 8.16.1 kernel/coqc; theorems closed under the global context (no axioms)",
    "generator model Model/GenNet.gen_net, hand-written: tied to get_c_code() on every run by SYNTACTIC equality (prog_eqb, evaluated by "
    "vm_compute in the kernel) between the strictly parsed emitted text and gen_net applied to the architecture extracted from the model "
    "object, plus wf_spatial_model = true, for every sampled stack; C02_logic_net then covers every input and word size of that program, "
    "and every other well-formed network on which the emitter agrees with gen_net",
    "independent second layer: vm_compute evaluates the verified validator (exhaustive Boolean execution of the parsed program against "
    "the reference circuit Model/ConvNet.eval_net) on every sampled model whose input size fits the budget, safe_check otherwise",
    "strict parser harness/cparse.py; gcc/clang on the straight-line fragment; translators gatecode.py / wrapper.py",
    "PyTorch eval forward of conv / pool / dense = reference circuit: compared exactly on every sampled model (see also C03, C12), not proved",
]


KLIM = {"quick": 9, "thorough": 12}     # largest input size validated exhaustively inside the kernel
BUDGET = {"quick": 3e7, "thorough": 2e8}  # 2^n_in * statements^2 (the functional memory makes execution quadratic)


def exhaustive_ok(ck, p, n_in):
    return n_in <= KLIM[ck.tier] and (2 ** n_in) * len(p["body"]) ** 2 <= BUDGET[ck.tier]


def model_cases(ck):
    rng = ck.rng
    out = []
    for name, shp, layers in nets.SYSTEMATIC_STACKS:
        for par in (("raw",) if len(shp) == 4 else ("raw", "walsh")):
            if par == "walsh" and name not in ("rect-tall-pad1", "conv-pool-conv-dense3", "pool-tall-pad1-overhang"):
                continue
            out.append((f"{name}-{par}", lambda rng=rng, shp=shp, layers=layers, par=par: nets.make_custom(rng, shp, layers, param=par,
                                                                                                          tau=rng.choice([1.0, 2.0]))))
    n = 10 if ck.tier == "quick" else 150
    for t in range(n):
        dims = 3 if t % 3 == 2 else 2
        par = "walsh" if (dims == 2 and t % 4 == 1) else "raw"
        out.append((f"random{dims}d-{par}", lambda rng=rng, dims=dims, par=par: nets.make_stack(rng, dims=dims, param=par,
                                                                                                   max_in=10 if ck.tier == "quick" else 12)))
    return out


def run(ck: Check):
    ck.trusted = TRUSTED
    ck.rule = ("systematic stacks (rectangular tall/wide with padding 1..2, stride = rf, pooling with padding on tall/wide maps incl. overhanging "
               "last windows, kernel 3, conv-pool-conv-flatten-dense x3/x4, unique wiring, no GroupSum, 3-D incl. non-cubic receptive fields, "
               "3-D pooling with padding) and random 2-D/3-D stacks, raw and Walsh, all four word sizes, opt levels 0..3: (i) the parsed "
               "emitted text is validated in the Coq kernel against the reference circuit on ALL Boolean inputs; (ii) the real library is "
               "compared with eval-mode PyTorch and the reference mirror on all inputs (<= 2^10 quick) at several batch sizes. "
               "Non-trivial: padding, pooling or more than one layer. Distinct = canonical JSON of architecture + gates + W.")
    ck.translate("GateCode", t_gc.gen_gatecode)
    ck.translate("WrapperParams", t_wr.gen_wrapper_params)
    ck.prove("Props/C02", THEOREMS)
    rng = ck.rng
    items = []
    for idx, (name, mk) in enumerate(model_cases(ck)):
        torch.manual_seed(ck.seed * 977 + idx)
        try:
            model = mk()
        except Exception as e:
            ck.broke("correspondence", "harness", f"could not build {name}: {e!r}")
            continue
        spec = nets.extract(model)
        W = [8, 16, 32, 64][idx % 4]
        opt = idx % 4
        n_in = int(np.prod(spec["input_shape"]))
        arch = [{k: v for k, v in l.items() if k in ("kind", "in_dim", "channels", "kernels", "depth", "rf", "stride", "padding", "dims", "kernel", "param")}
                | ({"width": len(l["a"])} if l["kind"] == "dense" else {}) for l in spec["layers"]]
        case = {"name": name, "W": W, "opt": opt, "arch": arch, "k": spec["k"]}
        ck.case(case, nontrivial=len(arch) > 1, kind=name.split("-")[0] if name.startswith(("random", "pool", "conv3d", "pool3d", "rect")) else "systematic")
        sig = {"name": name.rsplit("-", 1)[0], "W": W}
        try:
            net = compiled.build(model, W)
        except Exception as e:
            ck.disagree("a supported conv/pool stack is refused by the compiler", case, observed=repr(e)[:200], signature=dict(sig, what="refused"))
            continue
        text = net.get_c_code()
        if net.get_c_code() != text:
            ck.disagree("generating the C code twice from one CompiledLogicNet gives two different programs", case,
                        signature=dict(sig, what="regenerate"))
        ref_rows, _ = nets.input_rows(rng, n_in, 9 if ck.tier == "quick" else 12, n_random=128)
        ref = [nets.eval_spec(spec, r) for r in ref_rows]
        n_out = len(ref[0])
        try:
            p = cparse.parse_unit(text, W)
            p["sizes"][0], p["sizes"][1] = n_in, n_out
            items.append((idx, spec, p, case, n_in))
        except cparse.ParseError as e:
            ck.broke("correspondence", "parse emitted C", f"{name}: {e}")
        try:
            compiled.compile_net(net, opt=opt)
        except Exception as e:
            ck.disagree("compilation of a supported stack failed", case, observed=repr(e)[:200], signature=dict(sig, what="compile"))
            continue
        x = torch.tensor(ref_rows, dtype=torch.float32).reshape(len(ref_rows), *spec["input_shape"])
        model.eval()
        with torch.no_grad():
            yt = model(x).reshape(len(ref_rows), -1)
        tau = spec["tau"] or 1.0
        texp = [[round(v * tau) for v in r] for r in yt.tolist()]
        exp = [nets.counts(b, spec["k"]) if spec["k"] else b for b in ref]
        for i in range(len(ref_rows)):
            if texp[i] != exp[i]:
                ck.disagree("eval-mode PyTorch model differs from the reference circuit", dict(case, row=ref_rows[i]), expected=exp[i],
                            observed=texp[i], signature=dict(sig, what="torch-vs-ref"))
                break
        xb = np.array(ref_rows, dtype=bool).reshape(len(ref_rows), *spec["input_shape"])
        for bs in (len(ref_rows), 1, W // 2 + 1, W + 3):
            bs = min(bs, len(ref_rows))
            off = rng.randrange(0, len(ref_rows) - bs + 1)
            try:
                got = compiled.forward(net, xb[off:off + bs].tolist())
            except Exception as e:
                ck.disagree("forward raised on a valid batch", dict(case, batch=bs), observed=repr(e)[:200], signature=dict(sig, what="forward"))
                break
            got = [list(np.array(g).reshape(-1)) for g in got]
            bad = next((j for j in range(bs) if [int(v) for v in got[j]] != texp[off + j]), None)
            if bad is not None:
                ck.disagree("compiled library differs from the eval-mode PyTorch model", dict(case, row=ref_rows[off + bad], batch=bs),
                            expected=texp[off + bad], observed=[int(v) for v in got[bad]], signature=dict(sig, what="so-vs-torch"))
                break
            ck.count("rows_compared", bs)
        # the same batch in other containers / memory layouts
        try:
            base = [[int(v) for v in np.array(g).reshape(-1)] for g in compiled.forward(net, xb.tolist())]
            for vname, res in compiled.forward_variants(net, ref_rows, shape=spec["input_shape"]).items():
                ck.count("input_variant_batches")
                if isinstance(res, Exception):
                    ck.disagree("forward raised on a valid Boolean batch given in another container / layout", dict(case, variant=vname),
                                observed=repr(res)[:200], signature=dict(sig, what="variant-raises", variant=vname))
                elif res != base:
                    ck.disagree("result depends on the container / memory layout of the Boolean batch", dict(case, variant=vname),
                                signature=dict(sig, what="variant", variant=vname))
        except Exception as e:
            ck.notes.append(f"input variants skipped for {name}: {e!r}"[:200])
    # (i) verified validator in the kernel, on every parsed program
    chunks = [items[i:i + 3] for i in range(0, len(items), 3)]
    texts = []
    for chunk in chunks:
        txt = "From Coq Require Import List Arith Bool. Import ListNotations.\nFrom TLX Require Import Model.CLang Model.ConvNet Model.Validate.\n"
        for idx, spec, p, case, n_in in chunk:
            txt += f"Definition n{idx} := {nets.layers_coq(spec)}.\nDefinition p{idx} : prog := {cparse.prog_coq(p)}.\n"
        txt += "Eval vm_compute in [" + "; ".join(
            (f"validate_exhaustive p{idx} (eval_net n{idx})" if exhaustive_ok(ck, p, n_in) else f"safe_check p{idx}")
            for idx, _, p, _, n_in in chunk) + "].\n"
        texts.append(txt)
    for chunk, (rc, out, err) in zip(chunks, ck.coq_eval_many("c02val", texts, timeout=1800, workers=12)):
        if rc != 0:
            ck.broke("correspondence", "kernel validation", err[-600:])
            continue
        for (idx, spec, p, case, n_in), ok in zip(chunk, coqio.parse_evals(out)[0]):
            ck.count("programs_validated_in_kernel_for_all_inputs" if exhaustive_ok(ck, p, n_in) else "programs_safe_checked_in_kernel")
            if not ok:
                # concrete failing input through the python mirror of the interpreter
                rows, _ = nets.input_rows(ck.rng, n_in, 12, n_random=256)
                found = None
                for r in rows:
                    try:
                        o = cparse.exec_prog(p, r, 8)
                        if [v & 1 for v in o] != nets.eval_spec(spec, r):
                            found = (r, [v & 1 for v in o], nets.eval_spec(spec, r))
                            break
                    except (IndexError, KeyError) as e:
                        found = (r, str(e), None)
                        break
                if found:
                    ck.disagree("the emitted program differs from the reference circuit (verified validator rejects it)",
                                dict(case, row=found[0]), expected=found[2], observed=found[1],
                                signature={"name": case["name"].rsplit("-", 1)[0], "W": case["W"], "what": "validator"})
                else:
                    ck.broke("correspondence", "validate_exhaustive", f"validator rejects {case['name']} but the mirror finds no failing input")
    # (iii) generator model: the parsed text IS gen_net (architecture), and the architecture is well formed -> C02_logic_net applies
    gennet.check_generator(ck, [(idx, spec, p, case) for idx, spec, p, case, _ in items])
    protocols.conv_protocol(ck, "raw", "")
    protocols.conv_protocol(ck, "walsh", "")
    predefined_end_to_end(ck)
    ck.extra["programs"] = ck.distribution.get("programs_validated_in_kernel_for_all_inputs", 0) + ck.distribution.get("programs_safe_checked_in_kernel", 0)
    ck.extra["disagreements_checked"] = ck.distribution.get("rows_compared", 0)
    ck.extra["explanation"] = ("programs = emitted translation units parsed, compared syntactically with the proved generator model and checked by the verified validator inside the Coq kernel "
                               "(exhaustively over all Boolean inputs where the budget allows, safe_check otherwise); disagreements_checked = "
                               "rows on which the real library, eval-mode PyTorch and the reference circuit were compared")
    return ck.finish()


def predefined_end_to_end(ck):
    """The library's own architectures (k_num = 1) with RANDOM gates: real library vs eval-mode PyTorch on random rows; in the thorough
    tier the parsed text is also compared with the generator model in the kernel (C02_emitted_counts then applies to that text)."""
    from torchlogix import models as M
    rng = ck.rng
    todo = [("ClgnCifar10Mini", lambda: M.ClgnCifar10Mini(k_num=1, device="cpu")), ("ClgnMnist", lambda: M.ClgnMnist(k_num=1, device="cpu"))]
    if ck.tier == "thorough":
        todo += [("ClgnCifar10Tiny", lambda: M.ClgnCifar10Tiny(k_num=1, device="cpu")),
                 ("ClgnCifar10", lambda: M.ClgnCifar10(n_bits=1, k_num=1, tau=1.0, device="cpu"))]
    jobs = []
    for i, (name, mk) in enumerate(todo):
        torch.manual_seed(ck.seed + i)
        model = mk()
        for m in model.modules():
            if type(m).__name__ == "LogicDense":
                nets.set_gates(rng, m, [rng.randrange(16) for _ in range(m.out_dim)], "raw")
            if type(m).__name__ == "LogicConv2d":
                nets.set_tree_gates(rng, m, "raw")
        W = [64, 32, 16, 8][i % 4]
        case = {"name": name, "W": W, "predefined": True}
        ck.case(case, nontrivial=True, kind="predefined")
        try:
            net = compiled.build(model, W)
            compiled.compile_net(net, opt=i % 3)
            x = (np.random.RandomState(ck.seed + i).rand(W + 6, *net.input_shape) > 0.5)
            got = [[int(v) for v in r] for r in compiled.forward(net, x.tolist())]
            model.eval()
            with torch.no_grad():
                yt = model(torch.tensor(x, dtype=torch.float32))
            tau = [m for m in model.modules() if type(m).__name__ == "GroupSum"][0].tau
            exp = (yt.double() * tau).round().int().tolist()
        except Exception as e:
            ck.disagree("a predefined architecture cannot be compiled / run", case, observed=repr(e)[:300], signature={"what": "predefined", "name": name})
            continue
        ck.count("rows_compared", len(got))
        if got != exp:
            bad = next(j for j in range(len(got)) if got[j] != exp[j])
            ck.disagree("compiled predefined architecture differs from the eval-mode PyTorch model", dict(case, row_index=bad),
                        expected=exp[bad], observed=got[bad], signature={"what": "predefined", "name": name})
        if ck.tier == "thorough":
            try:
                p = cparse.parse_unit(net.get_c_code(), W)
                p["sizes"][0], p["sizes"][1] = int(np.prod(net.input_shape)), int(net._get_output_size())
                txt = gennet.large_text(nets.extract(model), p)
                if txt:
                    jobs.append((name, p, txt))
            except cparse.ParseError as e:
                ck.broke("correspondence", "parse emitted C", f"{name}: {e}")
    for (name, p, _), (rc, out, err) in zip(jobs, ck.coq_eval_many("c02large", [j[2] for j in jobs], timeout=7200, workers=4)):
        gennet.judge_large(ck, name, p, rc, out, err)


def replay(ck, path):
    return run(ck)
