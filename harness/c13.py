"""C13 — wiring invariants hold for every size and seed."""
import contextlib

import numpy as np
import torch

from harness import coqio
from harness.common import Check

THEOREMS = ["C13_unrank_arith", "C13_unique", "C13_unique_rejects", "C13_unique_slices", "C13_unique_slices_upto_24", "C13_random_range", "C13_random_cover",
            "C13_conv_unique", "C13_conv_unique_rejects", "C13_positions_distinct", "C13_tree", "C13_unique_cover", "C13_unique_cover_all_refuted", "C13_tree_count", "C13_tree_levels_halve",
            "C13_documented_count_refuted", "C13_unrank_row_first", "C13_unrank_row_last", "C13_unrank_never_degenerate"]
TRUSTED = [
    "Coq 8.16.1 kernel/coqc; theorems closed under the global context; the slice-level mirror of get_unique_connections equals the closed form for every size (C13_unique_slices; the computation up to in_dim 24 is kept as a cross-check); vm_compute for kernel evaluation of the model",
    "hand-written model Model/Wiring.v tied by exact equality with layer.indices / kernel_pairs of real constructors run under recorded "
    "random draws (torch.randperm / torch.randint wrapped in the harness process)",
    "torch.randperm returns a permutation and torch.randint values inside [low, high): trusted",
    "torch slicing / cat / triu_indices / meshgrid enumeration orders are modelled, tied by the equality runs",
]


class SamplerDoesNotTerminate(Exception):
    pass


@contextlib.contextmanager
def record_draws(log):
    rp, ri = torch.randperm, torch.randint

    def randperm(n, *a, **kw):
        r = rp(n, *a, **kw)
        log.append(("randperm", int(n), r.tolist()))
        return r

    def randint(low, high, size, *a, **kw):
        r = ri(low, high, size, *a, **kw)
        log.append(("randint", int(low), int(high), r.tolist()))
        if len(log) > 200000:
            # a sampler that draws by rejection never ends when it is asked for more distinct values than exist
            raise SamplerDoesNotTerminate(f"{len(log)} batches drawn below {int(high)}")
        return r
    torch.randperm, torch.randint = randperm, randint
    try:
        yield
    finally:
        torch.randperm, torch.randint = rp, ri


def natl(xs):
    return "[" + "; ".join(str(int(x)) for x in xs) + "]"


def dense_cases(ck):
    from torchlogix.layers import LogicDense
    rng = ck.rng
    nmax = 12 if ck.tier == "quick" else 25
    seeds = 1 if ck.tier == "quick" else 3
    uniq, rand, rej = [], [], []
    for n in range(1, nmax + 1):
        for m in range(1, n * (n - 1) // 2 + 3):
            if ck.tier == "quick" and m > 3 * n and (m % 5) and m < n * (n - 1) // 2 - 1:
                continue
            for s in range(seeds):
                torch.manual_seed(ck.seed * 100003 + n * 977 + m * 31 + s)
                log = []
                try:
                    with record_draws(log):
                        l = LogicDense(n, m, device="cpu", connections="unique")
                    a, b = l.indices[0].tolist(), l.indices[1].tolist()
                    uniq.append((n, m, log[-1][2], a, b))
                    # direct property check on the implementation
                    prs = list(zip(a, b))
                    ck.case({"scheme": "unique", "in_dim": n, "out_dim": m, "seed": s}, nontrivial=m > 1, kind="dense-unique")
                    if any(x == y for x, y in prs) or any(not (0 <= v < n) for p in prs for v in p) or \
                            len({frozenset(p) for p in prs}) != len(prs) or len(prs) != m:
                        ck.disagree("'unique' wiring has a self pair, a repeated unordered pair or an out-of-range wire",
                                    {"in_dim": n, "out_dim": m, "a": a, "b": b, "perm": log[-1][2]},
                                    signature={"scheme": "unique", "what": "invariant"})
                    if not (2 * m >= n and m <= n * (n - 1) // 2):
                        ck.disagree("'unique' wiring accepted a size for which its guarantees are impossible",
                                    {"in_dim": n, "out_dim": m}, signature={"scheme": "unique", "what": "accepts"})
                except AssertionError:
                    rej.append((n, m))
                    ck.case({"scheme": "unique", "in_dim": n, "out_dim": m, "rejected": True}, kind="dense-unique-rejected")
                    if 2 * m >= n and m <= n * (n - 1) // 2:
                        ck.disagree("'unique' wiring rejected a feasible size", {"in_dim": n, "out_dim": m},
                                    signature={"scheme": "unique", "what": "rejects-feasible"})
    for n in list(range(1, 9)) + [rng.randrange(9, 200) for _ in range(10 if ck.tier == "quick" else 60)]:
        for m in ([1, 2, 3, 5, 8] if n < 9 else [rng.randrange(1, 2 * n) for _ in range(2)]):
            torch.manual_seed(ck.seed * 7 + n * 131 + m)
            log = []
            with record_draws(log):
                l = LogicDense(n, m, device="cpu", connections="random")
            a, b = l.indices[0].tolist(), l.indices[1].tolist()
            p1, p2 = log[-2][2], log[-1][2]
            rand.append((n, m, p1, p2, a, b))
            ck.case({"scheme": "random", "in_dim": n, "out_dim": m}, nontrivial=m > 1, kind="dense-random")
            if any(not (0 <= v < n) for v in a + b) or len(a) != m or len(b) != m:
                ck.disagree("'random' wiring refers to a non-existent input", {"in_dim": n, "out_dim": m, "a": a, "b": b},
                            signature={"scheme": "random", "what": "range"})
            if 2 * m >= n and set(a + b) != set(range(n)):
                ck.disagree("'random' wiring leaves an input unused although 2*out_dim >= in_dim",
                            {"in_dim": n, "out_dim": m, "a": a, "b": b, "p1": p1, "p2": p2, "unused": sorted(set(range(n)) - set(a + b))},
                            signature={"scheme": "random", "what": "cover"})
    # model evaluated in the kernel on the same draws
    for start in range(0, len(uniq), 300):
        chunk = uniq[start:start + 300]
        txt = ("From Coq Require Import List Arith. Import ListNotations.\nFrom TLX Require Import Model.Wiring.\n"
               "Eval vm_compute in [" + ";\n ".join(f"unique_connections {n} {m} {natl(perm)}" for n, m, perm, _, _ in chunk) + "].\n")
        rc, out, err = ck.coq_eval("c13u", txt)
        if rc != 0:
            ck.broke("correspondence", "kernel evaluation (unique)", err[-500:])
            continue
        for (n, m, perm, a, b), mv in zip(chunk, coqio.parse_evals(out)[0]):
            ck.count("model_vs_impl_unique")
            if mv is None or [list(p) for p in mv] != [list(p) for p in zip(a, b)]:
                ck.broke("correspondence", "Model/Wiring.unique_connections",
                         f"in_dim={n} out_dim={m} perm={perm}: model {mv} implementation {list(zip(a, b))}")
    if rej:
        txt = ("From Coq Require Import List Arith. Import ListNotations.\nFrom TLX Require Import Model.Wiring.\n"
               "Eval vm_compute in [" + "; ".join(f"match unique_connections {n} {m} [] with None => true | Some _ => false end" for n, m in rej) + "].\n")
        rc, out, err = ck.coq_eval("c13r", txt)
        if rc == 0:
            for (n, m), ok in zip(rej, coqio.parse_evals(out)[0]):
                ck.count("model_vs_impl_unique_rejects")
                if not ok:
                    ck.broke("correspondence", "unique_connections guard", f"in_dim={n} out_dim={m}: implementation rejects, model accepts")
    for start in range(0, len(rand), 100):
        chunk = rand[start:start + 100]
        txt = ("From Coq Require Import List Arith. Import ListNotations.\nFrom TLX Require Import Model.Wiring.\n"
               "Eval vm_compute in [" + ";\n ".join(f"random_connections {n} {m} {natl(p1)} {natl(p2)}" for n, m, p1, p2, _, _ in chunk) + "].\n")
        rc, out, err = ck.coq_eval("c13d", txt)
        if rc != 0:
            ck.broke("correspondence", "kernel evaluation (random)", err[-500:])
            continue
        for (n, m, p1, p2, a, b), mv in zip(chunk, coqio.parse_evals(out)[0]):
            ck.count("model_vs_impl_random")
            if [list(mv[0]), list(mv[1])] != [a, b]:
                ck.broke("correspondence", "Model/Wiring.random_connections", f"in_dim={n} out_dim={m}: model {mv} implementation {[a, b]}")


def conv_cases(ck):
    from torchlogix.layers import LogicConv2d, LogicConv3d
    rng = ck.rng
    items = []
    n = 40 if ck.tier == "quick" else 300
    configs = []
    for t in range(n):
        dims = 3 if t % 4 == 3 else 2
        rf = rng.randrange(1, 4) if dims == 2 else rng.randrange(1, 3)
        rfs = [rf] * dims
        if dims == 3 and t % 8 == 3:
            rfs = [rng.randrange(1, 4) for _ in range(3)]
        configs.append((dims, rfs, rng.randrange(1, 4), rng.randrange(1, 4), rng.randrange(1, 4)))
    # families with EQUAL receptive-field volume x channels but different shapes, built one after the other in this process
    # (anything shared between layer instances and keyed by the volume alone shows up here)
    for fam in ([(2, [2, 2], 1), (2, [1, 1], 4)], [(2, [3, 3], 4), (2, [6, 6], 1), (2, [2, 2], 9)], [(2, [2, 2], 4), (2, [4, 4], 1)],
                [(2, [1, 1], 9), (2, [3, 3], 1)], [(3, [2, 2, 2], 1), (3, [1, 2, 2], 2), (3, [2, 2, 1], 2), (3, [1, 1, 1], 8)],
                [(3, [1, 2, 3], 1), (3, [3, 2, 1], 1), (3, [1, 1, 2], 3)]):
        for dims, rfs, C in fam:
            configs.append((dims, list(rfs), C, rng.randrange(1, 3), 2))
    # feasibility boundary: with n = positions x channels, depth d is feasible iff 2^d <= n(n-1)/2; the largest feasible depth and
    # the one above it (which is still below the number of ORDERED pairs n(n-1)) for small n, in 2-D and 3-D
    for dims, rfs, C in [(2, [1, 1], 2), (2, [1, 1], 3), (2, [1, 1], 4), (2, [1, 1], 5), (2, [2, 2], 1), (2, [2, 2], 2),
                         (3, [1, 1, 1], 2), (3, [1, 1, 1], 3), (3, [1, 1, 1], 5), (3, [1, 2, 2], 1), (3, [1, 1, 2], 1), (3, [1, 1, 2], 3),
                         (3, [2, 2, 2], 1)]:
        n_pos = int(np.prod(rfs)) * C
        maxp = n_pos * (n_pos - 1) // 2
        d_ok = maxp.bit_length() - 1          # largest d with 2^d <= maxp (maxp >= 1)
        for depth in sorted({max(1, d_ok), d_ok + 1}):
            configs.append((dims, list(rfs), C, depth, 1))
    for t, (dims, rfs, C, depth, K) in enumerate(configs):
        P = int(np.prod(rfs)) * C
        s = 2 ** depth
        torch.manual_seed(ck.seed * 13 + t)
        log = []
        kw = dict(in_dim=max(4 if dims == 2 else 3, max(rfs)), device="cpu", channels=C, num_kernels=K, tree_depth=depth,
                  receptive_field_size=rfs[0] if len(set(rfs)) == 1 else tuple(rfs), connections="random-unique")
        case = {"scheme": "conv-random-unique", "dims": dims, "rf": rfs, "channels": C, "depth": depth, "kernels": K}
        try:
            with record_draws(log):
                l = (LogicConv2d if dims == 2 else LogicConv3d)(**kw)
        except SamplerDoesNotTerminate as e:
            ck.case(dict(case, rejected=False), kind=f"conv{dims}d-unique")
            ck.disagree("conv 'random-unique' accepted more pairs than exist (and its sampler draws for ever)", dict(case, observed=str(e)),
                        signature={"scheme": "conv", "what": "accepts"})
            continue
        except ValueError:
            ck.case(dict(case, rejected=True), kind="conv-unique-rejected")
            if s <= P * (P - 1) // 2:
                ck.disagree("conv 'random-unique' rejected a feasible size", case, signature={"scheme": "conv", "what": "rejects-feasible"})
            continue
        ck.case(case, nontrivial=s > 1, kind=f"conv{dims}d-unique")
        if s > P * (P - 1) // 2:
            ck.disagree("conv 'random-unique' accepted more pairs than exist", case, signature={"scheme": "conv", "what": "accepts"})
            continue
        pa, pb = l.kernel_pairs
        # the sampler draws batches of s numbers below the number of pairs until s distinct ones are found, kernel after kernel
        batches = [e[3] for e in log if e[0] == "randint" and e[1] == 0 and e[2] == P * (P - 1) // 2 and len(e[3]) == s]
        perms, bi = [], 0
        for k in range(K):
            draws, seen = [], set()
            while len(seen) < s and bi < len(batches):
                draws += batches[bi]
                seen |= set(batches[bi])
                bi += 1
            perms.append(draws)
        if bi != len(batches) or len(perms) != K:
            ck.broke("correspondence", "harness", f"{case}: the recorded draws do not match the sampler's batches ({len(batches)} batches, {bi} used)")
            continue
        for k in range(K):
            A = [tuple(v) for v in pa[k].tolist()]
            B = [tuple(v) for v in pb[k].tolist()]
            prs = list(zip(A, B))
            if any(x == y for x, y in prs) or len({frozenset(p) for p in prs}) != len(prs) or \
                    any(not (0 <= c < lim) for x in A + B for c, lim in zip(x, rfs + [C])):
                ck.disagree("conv 'random-unique' wiring has a degenerate, repeated or out-of-field pair",
                            dict(case, kernel=k, pairs=prs), signature={"scheme": "conv", "what": "invariant"})
            items.append((dims, rfs, C, s, perms[k], A, B))
        # tree levels
        for level in range(1, depth + 1):
            li, ri = l.indices[level]
            size = 2 ** (depth - level + 1)
            if li.tolist() != list(range(0, size, 2)) or ri.tolist() != list(range(1, size, 2)):
                ck.disagree("tree level wiring is not the full binary tree", dict(case, level=level, left=li.tolist(), right=ri.tolist()),
                            signature={"scheme": "tree"})
        # gate and input count of one kernel: 2^(depth+1) - 1 gates on 2^(depth+1) window positions (theorem C13_tree_count)
        n_gates = sum(len(lv) for lv in l.tree_weights)
        n_reads = 2 * pa.shape[1]
        ck.count("tree_count_cases")
        if n_gates != 2 ** (depth + 1) - 1 or n_reads != 2 ** (depth + 1) or len(l.tree_weights) != depth + 1 or \
                [len(lv) for lv in l.tree_weights] != [2 ** (depth - j) for j in range(depth + 1)]:
            ck.disagree("the gates of a kernel are not a full binary tree over its 2^depth first-level gates",
                        dict(case, gates=n_gates, reads=n_reads, levels=[len(lv) for lv in l.tree_weights]),
                        signature={"scheme": "tree", "what": "count"})
        # range of absolute indices
        ia, ib = l.indices[0]
        pad = l.padding or 0
        lim = [x + 2 * pad for x in l.in_dim] + [C]
        for tname, tt_ in (("a", ia), ("b", ib)):
            mx = tt_.reshape(-1, dims + 1).max(0).values.tolist()
            mn = tt_.reshape(-1, dims + 1).min(0).values.tolist()
            if any(v >= L for v, L in zip(mx, lim)) or any(v < 0 for v in mn):
                ck.disagree("convolution wiring refers outside the padded input", dict(case, max=mx, limit=lim),
                            signature={"scheme": "conv", "what": "range"})
    # random scheme: range only
    for t in range(10 if ck.tier == "quick" else 60):
        dims = 2 if t % 2 else 3
        rf, C, depth = rng.randrange(1, 3), rng.randrange(1, 3), rng.randrange(1, 3)
        rf_arg = rf
        if dims == 3 and t % 4 == 0:
            rf_arg = tuple(rng.sample([1, 2, 3], 3))
        in_dim = 3 if dims == 2 else (4, 4, 4)
        l = (LogicConv2d if dims == 2 else LogicConv3d)(in_dim=in_dim, device="cpu", channels=C, num_kernels=2, tree_depth=depth + 1,
                                                        receptive_field_size=rf_arg, connections="random", padding=rng.randrange(0, 2))
        ck.case({"scheme": "conv-random", "dims": dims, "rf": rf_arg, "channels": C, "depth": depth, "padding": l.padding}, kind=f"conv{dims}d-random")
        field = (list(rf_arg) if isinstance(rf_arg, tuple) else [rf] * dims) + [C]
        for kp in l.kernel_pairs:
            mxp = kp.reshape(-1, dims + 1).max(0).values.tolist()
            if any(v >= L for v, L in zip(mxp, field)):
                ck.disagree("kernel pair lies outside the receptive field", {"dims": dims, "rf": rf_arg, "max": mxp, "field": field},
                            signature={"scheme": "conv", "what": "field"})
        ia, ib = l.indices[0]
        lim = [x + 2 * l.padding for x in l.in_dim] + [C]
        for tt_ in (ia, ib):
            mx = tt_.reshape(-1, dims + 1).max(0).values.tolist()
            if any(v >= L for v, L in zip(mx, lim)):
                ck.disagree("convolution wiring refers outside the padded input", {"max": mx, "limit": lim},
                            signature={"scheme": "conv", "what": "range"})
    # model in the kernel: pairs from the recorded permutation
    for start in range(0, len(items), 150):
        chunk = items[start:start + 150]
        txt = ("From Coq Require Import List Arith. Import ListNotations.\nFrom TLX Require Import Model.Wiring.\n"
               "Definition show (dims : list nat) (o : option (list (nat * nat))) := option_map (map (fun p => (unravel dims (fst p), unravel dims (snd p)))) o.\n"
               "Eval vm_compute in [" + ";\n ".join(
                   f"show {natl(rfs + [C])} (conv_unique_pairs {int(np.prod(rfs)) * C} {s} {natl(perm)})"
                   for dims, rfs, C, s, perm, _, _ in chunk) + "].\n")
        rc, out, err = ck.coq_eval("c13c", txt)
        if rc != 0:
            ck.broke("correspondence", "kernel evaluation (conv unique)", err[-500:])
            continue
        for (dims, rfs, C, s, perm, A, B), mv in zip(chunk, coqio.parse_evals(out)[0]):
            ck.count("model_vs_impl_conv_unique")
            got = [(list(a), list(b)) for a, b in zip(A, B)]
            if mv is None or [(list(a), list(b)) for a, b in mv] != got:
                ck.broke("correspondence", "Model/Wiring.conv_unique_pairs", f"dims={dims} rf={rfs} C={C} s={s}: model {mv} implementation {got}")


@contextlib.contextmanager
def forced_randint(total, values):
    """torch.randint(0, total, (len(values),)) returns the supplied numbers (once); every other call is the real one."""
    ri = torch.randint
    state = {"used": False}

    def randint(low, high, size, *a, **kw):
        if int(high) == total and tuple(size) == (len(values),) and not state["used"]:
            state["used"] = True
            return torch.tensor(values, dtype=torch.long)
        return ri(low, high, size, *a, **kw)
    torch.randint = randint
    try:
        yield state
    finally:
        torch.randint = ri


def large_triangle(ck):
    """Pair numbers at the two ends of rows of a LARGE pair triangle (receptive fields of thousands of positions: 3x3 windows over
    hundreds or thousands of channels).  The pair a number stands for is fixed by integer arithmetic (theorem C13_unrank_arith: row i
    starts at i(2P-i-1)/2); a sampler that goes through floating point gets the ends of early rows wrong once P exceeds a few thousand."""
    from torchlogix.layers import LogicConv2d
    depth = 6
    s = 2 ** depth
    for C in ((456, 1024) if ck.tier == "quick" else (456, 1024, 1423, 4096, 12000)):
        P = 9 * C
        total = P * (P - 1) // 2
        start = lambda i: i * (2 * P - i - 1) // 2
        rows = [0, 1, 2, 3, 5, 10, 100, 1000, P // 3, P // 2, P - 4, P - 3]
        values = []
        for i in rows:
            values += [start(i), start(i + 1) - 1]
        values.append(total - 1)
        while len(values) < s:
            v = ck.rng.randrange(total)
            if v not in values:
                values.append(v)
        values = values[:s]
        case = {"kind": "large-triangle", "positions": P, "channels": C, "pairs": s}
        ck.case(case, nontrivial=True, kind="large-triangle")
        try:
            with forced_randint(total, values) as st:
                l = LogicConv2d(in_dim=3, device="cpu", channels=C, num_kernels=1, tree_depth=depth, receptive_field_size=3,
                                connections="random-unique")
        except Exception as e:
            ck.disagree("a 'random-unique' convolution over many channels cannot be built", dict(case, observed=repr(e)[:200]),
                        signature={"scheme": "conv", "what": "large-triangle", "kind": "raises"})
            continue
        if not st["used"]:
            ck.broke("correspondence", "harness", f"{case}: the sampler did not draw {s} numbers below {total} in one batch (draws could not be supplied)")
            continue
        pa, pb = l.kernel_pairs

        def coord(idx):                                   # Model/Wiring.position: row-major over (h, w, c)
            return [idx // (3 * C), (idx // C) % 3, idx % C]
        want = []
        for v in values:
            i = next(r for r in range(max(0, int((2 * P - 1 - ((2 * P - 1) ** 2 - 8 * v) ** 0.5) / 2) - 2), P) if start(r + 1) > v)
            j = v - start(i) + i + 1
            want.append((coord(i), coord(j)))
        got = [(a, b) for a, b in zip(pa[0].tolist(), pb[0].tolist())]
        ck.count("large_triangle_pairs", s)
        if got != want:
            k = next(n for n, (g, w_) in enumerate(zip(got, want)) if g != w_)
            ck.disagree("conv 'random-unique' wiring: a drawn pair number is turned into the wrong pair (degenerate or repeated pairs follow)",
                        dict(case, pair_number=values[k], expected_pair=want[k], observed_pair=got[k],
                             degenerate=sum(1 for a, b in got if a == b)),
                        signature={"scheme": "conv", "what": "large-triangle", "kind": "unrank"})


def run(ck: Check):
    ck.trusted = TRUSTED
    ck.rule = ("dense 'unique': every (in_dim, out_dim) with in_dim <= 12 (quick, thinned for large out_dim) / 25 (thorough) incl. "
               "infeasible sizes, 1..3 seeds; dense 'random': exhaustive small + random sizes up to 200; conv 'random-unique' and "
               "'random' over rf 1..3, channels 1..3, depth 1..3, 2-D and 3-D; real constructors run under recorded draws, the "
               "Coq model evaluated in the kernel on the same draws and compared exactly. Non-trivial: more than one neuron/pair. "
               "Distinct = canonical JSON of the configuration.")
    ck.prove("Props/C13", THEOREMS)
    dense_cases(ck)
    conv_cases(ck)
    large_triangle(ck)
    # 'unique' wiring at the scale of the exported large classes: 2^depth distinct pairs out of ~10^8 possible ones must be drawn without
    # listing them (the fourth convolution of ClgnCifar10Large4 has 40960 channels: 6.8e10 pairs); run under an address-space limit
    from harness import subproc
    job = {"kind_of_job": "unique-at-scale", "channels": 2048, "limit_gib": 4}
    res = subproc.run_jobs(ck.scratch, [job], workers=1, timeout=600)[0]
    for name in ("conv2d", "conv3d"):
        case = {"kind": "unique-at-scale", "layer": name, "channels": 2048, "address_space_gib": 4}
        ck.case(case, nontrivial=True, kind="unique-at-scale")
        st = (res["steps"][0] if res["steps"] else {}).get(name)
        if not res["done"] or st is None:
            ck.disagree("building a 'unique' convolution with 2048 input channels killed the process", dict(case, stderr=res["stderr"][-300:]),
                        signature={"what": "unique-at-scale", "kind": "crash"})
        elif not st["built"]:
            ck.disagree("a 'unique' convolution whose pairs fit easily (8 of 1.7e8) cannot be built: the sampler lists every possible pair",
                        dict(case, error=st["error"]), signature={"what": "unique-at-scale", "kind": "resource"})
        elif not (st["distinct"] and st["no_self"] and st["in_range"]):
            ck.disagree("'unique' wiring at scale has a repeated pair, a self-pair or an index out of range", dict(case, **st),
                        signature={"what": "unique-at-scale", "kind": "invariant"})
    return ck.finish()


def replay(ck, path):
    return run(ck)
