"""Worker run in a FRESH interpreter (it may be killed by the implementation under test).
usage: python -m harness.procworker <job.json>  -> prints one JSON line per step, flushed."""
import json
import os
import random
import sys
import threading

import numpy as np
import torch

from harness import compiled, nets


def model_by_id(mid, kind="dense"):
    """Deterministic small model number `mid` (distinct ids compute distinct functions on the probe batch)."""
    rng = random.Random(1000 + mid)
    torch.manual_seed(1000 + mid)
    if kind == "dense":
        return nets.make_dense(rng, 5, [7, 6], k=2)
    if kind == "dense-unique":
        return nets.make_dense(rng, 6, [9, 6], k=3, connections="unique", self_pairs=0.0)
    if kind == "conv2d":
        return nets.make_stack(rng, dims=2, param="raw", max_in=12, n_conv=1, n_dense=2, connections="random-unique")
    if kind == "conv2d-random":
        return nets.make_stack(rng, dims=2, param="walsh", max_in=12, n_conv=1, n_dense=1, connections="random")
    if kind == "conv3d":
        return nets.make_stack(rng, dims=3, param="raw", max_in=12, n_conv=1, n_dense=1)
    if kind == "dense-nogs":
        return nets.make_dense(rng, 5, [7, 6], k=None)
    if kind == "dense-big":
        # long enough in logic_net for concurrent calls to overlap
        return nets.make_dense(rng, 32, [6000, 6000, 64], k=2, self_pairs=0.0)
    if kind == "dense-wide":
        # more inputs than a 16-bit index can address
        return nets.make_dense(rng, 40000, [64, 6], k=2, self_pairs=0.0)
    raise ValueError(kind)


def probe(n_in, rows=100):
    r = random.Random(4242)
    return [[r.randrange(2) for _ in range(n_in)] for _ in range(rows)]


def say(obj):
    sys.stdout.write(json.dumps(obj) + "\n")
    sys.stdout.flush()


def job_history(job):
    handles = []
    for step in job["ops"]:
        op = step["op"]
        if op == "compile":
            m = model_by_id(step["model"])
            net = compiled.build(m, step["W"])
            compiled.compile_net(net, save=step.get("path"))
            handles.append(net)
            say({"handle": len(handles) - 1})
        elif op == "load":
            import torchlogix.compiled_model as CM
            try:
                net = CM.CompiledLogicNet.load(step["path"], (5,), 2, step["W"])
                handles.append(net)
                say({"handle": len(handles) - 1})
            except OSError as e:
                say({"error": "OSError"})
        elif op == "recompile":
            if step["handle"] >= len(handles):
                say({"error": "no-handle"})
                continue
            try:
                compiled.compile_net(handles[step["handle"]], save=step.get("path"))
                say({"handle": step["handle"]})
            except ValueError as e:
                say({"error": "ValueError"})
        elif op == "call":
            if step["handle"] >= len(handles):
                say({"error": "no-handle"})
                continue
            out = compiled.forward(handles[step["handle"]], probe(5, 24))
            say({"value": out})
    say({"done": True})


def job_threads(job):
    nets_ = []
    kind = job.get("kind", "dense")
    n_in = 32 if kind == "dense-big" else 5
    for mid in job["models"]:
        m = model_by_id(mid, kind)
        net = compiled.build(m, job["W"])
        compiled.compile_net(net)
        nets_.append(net)
        # the same network without its GroupSum: the direct call path
        direct = compiled.build(torch.nn.Sequential(*list(m)[:-1]), job["W"])
        compiled.compile_net(direct)
        nets_.append(direct)
    batches = [np.array(probe(n_in, 64 + 7 * i), dtype=bool) for i in range(4)]
    # batches of EQUAL size and different contents (anything keyed by the batch shape and shared between calls shows here)
    for i in range(4):
        r = random.Random(900 + i)
        batches.append(np.array([[r.randrange(2) for _ in range(n_in)] for _ in range(64)], dtype=bool))
    # no stdout redirection here: contextlib.redirect_stdout is not thread-safe
    seq = [[n.forward(b).tolist() for b in batches] for n in nets_]
    bad = []
    lock = threading.Lock()

    def work(tid, rounds):
        r = random.Random(tid)
        for _ in range(rounds):
            ni = r.randrange(len(nets_)) if job["mix"] else 0
            bi = r.randrange(len(batches))
            out = nets_[ni].forward(batches[bi]).tolist()
            if out != seq[ni][bi]:
                with lock:
                    bad.append([tid, ni, bi])
    ths = [threading.Thread(target=work, args=(t, job["rounds"])) for t in range(job["threads"])]
    for t in ths:
        t.start()
    for t in ths:
        t.join()
    say({"calls": job["threads"] * job["rounds"], "wrong": len(bad), "first": bad[:3]})
    say({"done": True})


def job_recompile_loaded(job):
    """compile model 0 -> save p; load p; call; compile() on the LOADED handle (to p or to another path); call again; load p again."""
    import torchlogix.compiled_model as CM
    m = model_by_id(0, job.get("kind", "dense"))
    net = compiled.build(m, job["W"])
    compiled.compile_net(net, save=job["path"])
    k = 2 if job.get("kind", "dense") == "dense" else None
    h = CM.CompiledLogicNet.load(job["path"], (5,), k, job["W"], **({} if k else {"output_size": 6}))
    rows = probe(5, 24)
    before = compiled.forward(h, rows)
    target = job["path"] if job["same_path"] else job["path"] + ".second.so"
    try:
        import contextlib, io
        with contextlib.redirect_stdout(io.StringIO()):
            h.compile(save_lib_path=target)
        accepted = True
    except Exception as e:
        accepted = False
    try:
        code = h.get_c_code()
        codegen = "returned %d lines" % len(code.splitlines())
    except Exception as e:
        codegen = None
    after = compiled.forward(h, rows)
    again = compiled.forward(CM.CompiledLogicNet.load(job["path"], (5,), k, job["W"], **({} if k else {"output_size": 6})), rows)
    second = None
    if accepted and not job["same_path"] and os.path.exists(target):
        second = compiled.forward(CM.CompiledLogicNet.load(target, (5,), k, job["W"], **({} if k else {"output_size": 6})), rows)
    say({"accepted": accepted, "before": before, "after": after, "reloaded": again, "second": second, "codegen": codegen})
    say({"done": True})


def job_concurrent_save(job):
    """several threads compile (different models) and save to ONE path at about the same time."""
    import torchlogix.compiled_model as CM
    rows = probe(5, 24)
    nets_ = [compiled.build(model_by_id(i % 2), job["W"]) for i in range(job["threads"])]
    refs = []
    for i in (0, 1):
        n0 = compiled.build(model_by_id(i), job["W"])
        compiled.compile_net(n0)
        refs.append(compiled.forward(n0, rows))
    errs = []
    lock = threading.Lock()
    bar = threading.Barrier(job["threads"])

    def work(i):
        try:
            bar.wait()
            nets_[i].compile(save_lib_path=job["path"])       # no stdout redirection: not thread-safe
            out = nets_[i].forward(np.array(rows, dtype=bool)).tolist()
            if out != refs[i % 2]:
                with lock:
                    errs.append([i, "handle computes another function"])
        except Exception as e:
            with lock:
                errs.append([i, f"{type(e).__name__}: {e}"[:160]])
    rounds = 0
    for rnd in range(job["rounds"]):
        rounds += 1
        bar.reset()
        ths = [threading.Thread(target=work, args=(i,)) for i in range(job["threads"])]
        for t in ths:
            t.start()
        for t in ths:
            t.join()
        try:
            o = compiled.forward(CM.CompiledLogicNet.load(job["path"], (5,), 2, job["W"]), rows)
            if o not in refs:
                errs.append([-1, "the library at the path computes none of the saved models"])
        except Exception as e:
            errs.append([-1, f"load failed: {type(e).__name__}: {e}"[:160]])
        if errs:
            break
    say({"rounds": rounds, "errors": errs[:4]})
    say({"done": True})


def job_unique_at_scale(job):
    """'unique' wiring of a convolution with many input channels, under an address-space limit: the number of possible pairs
    (1.7e8 for 2048 channels and a 3x3 field) must not be materialised."""
    import resource
    resource.setrlimit(resource.RLIMIT_AS, (job["limit_gib"] << 30, job["limit_gib"] << 30))
    from torchlogix.layers import LogicConv2d, LogicConv3d
    out = {}
    for name, mk in (("conv2d", lambda: LogicConv2d(in_dim=4, device="cpu", channels=job["channels"], num_kernels=3, tree_depth=3,
                                                     receptive_field_size=3, connections="unique")),
                     ("conv3d", lambda: LogicConv3d(in_dim=3, device="cpu", channels=job["channels"], num_kernels=2, tree_depth=2,
                                                     receptive_field_size=2, connections="random-unique"))):
        try:
            torch.manual_seed(5)
            l = mk()
            a, b = l.kernel_pairs
            pairs = [sorted([tuple(u), tuple(v)]) for u, v in zip(a.reshape(-1, a.shape[-1]).tolist(), b.reshape(-1, b.shape[-1]).tolist())]
            per_kernel = a.shape[1]
            distinct = all(len({tuple(map(tuple, q)) for q in pairs[k * per_kernel:(k + 1) * per_kernel]}) == per_kernel
                           for k in range(a.shape[0]))
            no_self = all(q[0] != q[1] for q in pairs)
            in_range = int(a[..., -1].max()) < job["channels"] and int(b[..., -1].max()) < job["channels"] and int(a.min()) >= 0 and int(b.min()) >= 0
            spread = len({q[0][-1] for q in pairs} | {q[1][-1] for q in pairs})          # channels touched
            out[name] = {"built": True, "distinct": distinct, "no_self": no_self, "in_range": in_range, "channels_touched": spread}
        except Exception as e:
            out[name] = {"built": False, "error": repr(e)[:200]}
    say(out)
    say({"done": True})


def job_save(job):
    """process A: build under seed s1, save state_dict and compiled library, report reference outputs."""
    torch.manual_seed(job["seed"])
    m = model_by_id(job["model"], job["kind"])
    torch.manual_seed(job["seed"])
    spec = nets.extract(m)
    n_in = int(np.prod(spec["input_shape"]))
    rows = probe(n_in, 100)
    x = torch.tensor(rows, dtype=torch.float32).reshape(len(rows), *spec["input_shape"])
    m.eval()
    with torch.no_grad():
        y = m(x).tolist()
    torch.save(m.state_dict(), job["state_path"])
    net = compiled.build(m, job["W"])
    compiled.compile_net(net, save=job["lib_path"])
    yc = compiled.forward(net, np.array(rows, dtype=bool).reshape(len(rows), *spec["input_shape"]).tolist())
    say({"eval": y, "compiled": yc, "input_shape": spec["input_shape"], "k": spec["k"], "tau": spec["tau"], "n_out": len(yc[0])})
    say({"done": True})


def job_resave(job):
    """one process: save model a to the path, then model b of the SAME architecture (same file size, other gates) to the same path; report
    what each compiling instance computes.  Another process then loads the path (job reload-lib)."""
    outs = []
    for mid in job["models"]:
        m = model_by_id(mid, job["kind"])
        spec = nets.extract(m)
        rows = probe(int(np.prod(spec["input_shape"])), 100)
        net = compiled.build(m, job["W"])
        compiled.compile_net(net, save=job["lib_path"])
        outs.append(compiled.forward(net, np.array(rows, dtype=bool).reshape(len(rows), *spec["input_shape"]).tolist()))
    say({"compiled": outs, "input_shape": spec["input_shape"], "k": spec["k"], "n_out": len(outs[0][0])})
    say({"done": True})


def job_reload_lib(job):
    import torchlogix.compiled_model as CM
    rows = probe(int(np.prod(job["input_shape"])), 100)
    kw = {} if job["k"] else {"output_size": job["n_out"]}
    h = CM.CompiledLogicNet.load(job["lib_path"], tuple(job["input_shape"]), job["k"], job["W"], **kw)
    say({"compiled": compiled.forward(h, np.array(rows, dtype=bool).reshape(len(rows), *job["input_shape"]).tolist())})
    say({"done": True})


def job_reload(job):
    """process B: another seed, RNG advanced arbitrarily; rebuild with the same constructor arguments, load, evaluate."""
    import torchlogix.compiled_model as CM
    torch.manual_seed(job["seed2"])
    torch.rand(job["advance"])
    random.seed(job["seed2"])
    m = model_by_id(job["model"], job["kind"])       # same constructor arguments; model_by_id seeds torch itself ...
    torch.manual_seed(job["seed2"] + 1)               # ... so rebuild the randomly wired layers under the other seed
    m2 = rebuild_like(m)
    n_in = int(np.prod(job["input_shape"]))
    rows = probe(n_in, 100)
    x = torch.tensor(rows, dtype=torch.float32).reshape(len(rows), *job["input_shape"])
    if job.get("warm"):
        # the rebuilt model has already been used (a training forward, then eval-mode forwards) before the state is loaded,
        # and no mode switch happens between loading and evaluating
        m2.train()
        with torch.no_grad():
            m2(x)
        m2.eval()
        with torch.no_grad():
            m2(x)
    sd = torch.load(job["state_path"])
    m2.load_state_dict(sd)
    if not job.get("warm"):
        m2.eval()
    with torch.no_grad():
        y = m2(x).tolist()
    other = None
    if job.get("preload"):
        # another saved library is loaded (and called) in this process first: the two must not interfere
        pl = job["preload"]
        other = CM.CompiledLogicNet.load(pl["lib_path"], tuple(pl["input_shape"]), pl["k"], pl["W"], output_size=pl.get("n_out"))
        n_other = int(np.prod(pl["input_shape"]))
        compiled.forward(other, np.array(probe(n_other, 3), dtype=bool).reshape(3, *pl["input_shape"]).tolist())
    if job["k"]:
        net = CM.CompiledLogicNet.load(job["lib_path"], tuple(job["input_shape"]), job["k"], job["W"])
    else:   # no GroupSum: the output width is not stored in the library
        net = CM.CompiledLogicNet.load(job["lib_path"], tuple(job["input_shape"]), None, job["W"], output_size=job["n_out"])
    yc = compiled.forward(net, np.array(rows, dtype=bool).reshape(len(rows), *job["input_shape"]).tolist())
    say({"eval": y, "compiled": yc})
    say({"done": True})


def rebuild_like(m):
    """Fresh modules with the same constructor arguments as those of m (new random wiring and weights)."""
    from torchlogix.layers import LogicDense, LogicConv2d, LogicConv3d, OrPooling, GroupSum
    out = []
    for l in m:
        if isinstance(l, LogicDense):
            out.append(LogicDense(l.in_dim, l.out_dim, device="cpu", connections=l.connections, parametrization=l.parametrization,
                                  weight_init="random"))
        elif isinstance(l, LogicConv2d):
            out.append(LogicConv2d(in_dim=l.in_dim, device="cpu", channels=l.channels, num_kernels=l.num_kernels, tree_depth=l.tree_depth,
                                   receptive_field_size=l.receptive_field_size, stride=l.stride, padding=l.padding,
                                   connections=l.connections, parametrization=l.parametrization, weight_init="random"))
        elif isinstance(l, LogicConv3d):
            out.append(LogicConv3d(in_dim=l.in_dim, device="cpu", channels=l.channels, num_kernels=l.num_kernels, tree_depth=l.tree_depth,
                                   receptive_field_size=l.receptive_field_size, stride=l.stride, padding=l.padding, connections=l.connections))
        elif isinstance(l, OrPooling):
            out.append(OrPooling(l.kernel_size, l.stride, l.padding))
        elif isinstance(l, GroupSum):
            out.append(GroupSum(l.k, l.tau, device="cpu"))
        elif isinstance(l, torch.nn.Flatten):
            out.append(torch.nn.Flatten())
        else:
            raise ValueError(type(l))
    return torch.nn.Sequential(*out)


if __name__ == "__main__":
    job = json.load(open(sys.argv[1]))
    {"history": job_history, "threads": job_threads, "save": job_save, "reload": job_reload,
     "resave": job_resave, "reload-lib": job_reload_lib, "recompile-loaded": job_recompile_loaded, "concurrent-save": job_concurrent_save, "unique-at-scale": job_unique_at_scale}[job["kind_of_job"]](job)
