"""C10 — gradients match the relaxation; straight-through keeps them; grad factor scales."""
import numpy as np
import torch

from harness import coqio, nets
from harness.common import Check
from translate import dispatch as t_disp, ops as t_ops

THEOREMS = ["C10_input_grad", "C10_softmax_jacobian_diag", "C10_softmax_jacobian_offdiag", "C10_logistic_grad", "C10_ste_grad",
            "C10_ste_grad_gumbel", "C10_hard_walsh_grad", "C10_soft_grad_nonzero", "C10_gradfactor", "C10_dispatch"]
TRUSTED = [
    "Coq 8.16.1 kernel/coqc; theorems over R (Coquelicot is_derive) depend on the standard-library Reals axioms and Classical_Prop.classic; the dispatch theorem is closed",
    "autograd is modelled by dual numbers (Model/AD.v: detach / comparisons carry a zero derivative, GradFactor scales it); that torch's "
    "reverse-mode engine implements this is trusted and exercised: torch.autograd.grad in float64 is compared with the analytic formulas",
    "translators translate/dispatch.py, translate/ops.py; torch.nn.functional.gumbel_softmax modelled from its documentation",
]


def softmax(v):
    e = np.exp(v - np.max(v))
    return e / e.sum()


def gate_vals(a, b):
    return np.array([sum(nets.tt(g, x, y) * (a if x else 1 - a) * (b if y else 1 - b) for x in (0, 1) for y in (0, 1)) for g in range(16)])


def run(ck: Check):
    from torchlogix.layers import LogicDense, LogicConv2d, LogicConv3d
    from harness.c12 import make_layer
    ck.trusted = TRUSTED
    ck.rule = ("dense layers (raw, Walsh) in soft / hard modes, temperature in {0.25, 1, 3}: torch.autograd.grad in float64 w.r.t. inputs and "
               "weights vs the analytic derivative of the documented relaxation (softmax Jacobian, logistic derivative, slope in the input); "
               "hard = soft-branch gradient at the forwarded values; gumbel modes: gradient non-zero and equal to the soft branch under a fixed "
               "seed; grad_factor f in {0.5, 2, 3} on dense, conv2d (padding 0..2) and conv3d: forward unchanged, input gradient ratio exactly f. "
               "Non-trivial: temperature != 1 or f != 1. Distinct = canonical JSON of the configuration.")
    ck.translate("Dispatch", t_disp.gen_dispatch)
    ck.translate("Ops", t_ops.gen_ops)
    ck.prove("Props/C10", THEOREMS)
    rng = ck.rng
    reps = 2 if ck.tier == "quick" else 8
    for rep in range(reps):
        for par in ("raw", "walsh"):
            for mode in ("soft", "hard"):
                for tau in (0.25, 1.0, 3.0):
                    torch.manual_seed(ck.seed * 19 + rep * 5 + int(tau * 4))
                    n_in, n_out = rng.randrange(2, 5), rng.randrange(2, 6)
                    l = LogicDense(n_in, n_out, device="cpu", parametrization=par, weight_init="random", temperature=tau,
                                   forward_sampling=mode).double()
                    l.train()
                    case = {"layer": "dense", "param": par, "mode": mode, "tau": tau}
                    ck.case(case, nontrivial=tau != 1.0, kind=f"dense-{par}-{mode}")
                    x = torch.rand(3, n_in, dtype=torch.float64, requires_grad=True)
                    up = torch.rand(3, n_out, dtype=torch.float64)
                    y = l(x)
                    gx, gw = torch.autograd.grad(y, [x, l.weight], grad_outputs=up)
                    w = l.weight.detach().numpy()
                    ia, ib = l.indices[0].tolist(), l.indices[1].tolist()
                    xs = x.detach().numpy()
                    egx = np.zeros_like(xs)
                    egw = np.zeros_like(w)
                    for r in range(3):
                        for i in range(n_out):
                            a, b = xs[r, ia[i]], xs[r, ib[i]]
                            u = up[r, i].item()
                            if par == "raw":
                                p = softmax(w[i] / tau)
                                pv = p if mode == "soft" else np.eye(16)[int(np.argmax(p))]
                                # forwarded weights: soft -> p, hard -> one-hot; gradient branch: softmax in both
                                da = float(pv @ (gate_vals(1.0, b) - gate_vals(0.0, b)))
                                db = float(pv @ (gate_vals(a, 1.0) - gate_vals(a, 0.0)))
                                vals = gate_vals(a, b)
                                jac = (np.diag(p) - np.outer(p, p)) / tau           # d p_i / d w_j
                                egw[i] += u * (vals @ jac)
                            else:
                                A, B = 2 * a - 1, 2 * b - 1
                                form = w[i, 0] + w[i, 1] * A + w[i, 2] * B + w[i, 3] * A * B
                                s = 1 / (1 + np.exp(-form / tau))
                                ds = s * (1 - s) / tau
                                da = ds * (w[i, 1] * 2 + w[i, 3] * 2 * B)
                                db = ds * (w[i, 2] * 2 + w[i, 3] * 2 * A)
                                egw[i] += u * ds * np.array([1.0, A, B, A * B])
                            egx[r, ia[i]] += u * da
                            egx[r, ib[i]] += u * db
                    ex = float(np.max(np.abs(egx - gx.numpy())))
                    ew = float(np.max(np.abs(egw - gw.numpy())))
                    ck.count("gradient_entries_compared", egx.size + egw.size)
                    if ex > 1e-9:
                        ck.disagree("input gradient differs from the analytic derivative of the relaxation", dict(case, maxerr=ex),
                                    signature={"layer": "dense", "param": par, "mode": mode, "what": "grad-input"})
                    if ew > 1e-9:
                        ck.disagree("parameter gradient differs from that of the soft selection at the forwarded values", dict(case, maxerr=ew),
                                    signature={"layer": "dense", "param": par, "mode": mode, "what": "grad-weight"})
                    if float(gw.abs().max()) == 0.0:
                        ck.disagree("parameter gradient is identically zero", case, signature={"layer": "dense", "param": par, "mode": mode, "what": "grad-zero"})
    # gumbel modes: gradient = soft branch of the same draw, non-zero
    for par in ("raw", "walsh"):
        for mode in ("gumbel_soft", "gumbel_hard"):
            tau = rng.choice([0.5, 2.0])
            l = LogicDense(3, 5, device="cpu", parametrization=par, weight_init="random", temperature=tau, forward_sampling="gumbel_soft").double()
            l.train()
            x = torch.rand(4, 3, dtype=torch.float64)
            up = torch.rand(4, 5, dtype=torch.float64)
            l.forward_sampling = "gumbel_soft"
            torch.manual_seed(77)
            gs, = torch.autograd.grad(l(x), [l.weight], grad_outputs=up)
            l.forward_sampling = mode
            torch.manual_seed(77)
            yh = l(x)
            gh, = torch.autograd.grad(yh, [l.weight], grad_outputs=up)
            ck.case({"layer": "dense", "param": par, "mode": mode, "tau": tau}, kind=f"dense-{par}-{mode}")
            if float(gh.abs().max()) == 0.0:
                ck.disagree("gumbel-mode parameter gradient is identically zero", {"param": par, "mode": mode},
                            signature={"layer": "dense", "param": par, "mode": mode, "what": "grad-zero"})
            if mode == "gumbel_hard" and par == "walsh" and not (float((gh - gs).abs().max()) <= 1e-9):
                ck.disagree("gumbel_hard gradient differs from the gradient of the soft sample of the same draw", {"param": par},
                            signature={"layer": "dense", "param": par, "mode": mode, "what": "grad-ste"})
    # grad factor
    for f in (0.5, 2.0, 3.0, 1.3):
        layers = []
        for par in ("raw", "walsh"):
            layers.append(("dense", LogicDense(4, 5, device="cpu", parametrization=par, weight_init="random"), [3, 4]))
        for pad in (0, 1, 2):
            for par in ("raw", "walsh"):
                torch.manual_seed(ck.seed + pad)
                c = LogicConv2d(in_dim=(3, 4), device="cpu", channels=2, num_kernels=2, tree_depth=2, receptive_field_size=2, padding=pad,
                                parametrization=par, weight_init="random")
                layers.append((f"conv2d-pad{pad}", c, [2, 2, 3, 4]))
        for pad in (0, 1):
            c3 = LogicConv3d(in_dim=(2, 3, 2), device="cpu", channels=1, num_kernels=2, tree_depth=1, receptive_field_size=2, padding=pad)
            layers.append((f"conv3d-pad{pad}", c3, [2, 1, 2, 3, 2]))
        for name, l, shp in layers:
            l = l.double()
            l.train()
            x = torch.rand(*shp, dtype=torch.float64, requires_grad=True)
            torch.manual_seed(5)
            l.grad_factor = 1.0
            y1 = l(x)
            up = torch.rand_like(y1)
            params = [p for p in l.parameters() if p.requires_grad]
            g1, *pg1 = torch.autograd.grad(y1, [x] + params, grad_outputs=up)
            l.grad_factor = f
            y2 = l(x)
            g2, *pg2 = torch.autograd.grad(y2, [x] + params, grad_outputs=up)
            case = {"layer": name, "param": getattr(l, "parametrization", "raw"), "f": f}
            ck.case(case, nontrivial=True, kind="gradfactor")
            # the factor scales what flows to the INPUT; the gradient of the layer's own parameters stays the analytic derivative of the
            # relaxation (compared with the analytic formulas above at f = 1): it must not change with f
            pbad = [(float((a - b).abs().max()), float(b.abs().max())) for a, b in zip(pg2, pg1)
                    if not (float((a - b).abs().max()) <= 1e-12 * max(1.0, float(b.abs().max())))]
            if pbad:
                ratio = float(sum(a.abs().sum() for a in pg2) / max(1e-300, float(sum(b.abs().sum() for b in pg1))))
                ck.disagree("the gradient factor changes the gradient of the layer's own parameters (it must scale only the gradient flowing to the input)",
                            dict(case, observed_ratio=ratio), signature={"layer": name.split("-")[0], "what": "gf-parameters"})
            if not torch.equal(y1, y2):
                ck.disagree("grad_factor changes the forward values", case, signature={"layer": name.split("-")[0], "what": "gf-forward"})
            if not (float((g2 - f * g1).abs().max()) <= 1e-12 * max(1.0, float(g1.abs().max()))):
                ratio = float((g2.abs().sum() / g1.abs().sum()))
                ck.disagree("gradient flowing to the layer input is not multiplied by exactly the gradient factor", dict(case, observed_ratio=ratio),
                            signature={"layer": name.split("-")[0], "what": "gf-scale", "padded": "pad0" not in name and "conv" in name})
            # the factor scales only what flows back THROUGH the layer: another consumer of the same input tensor is not scaled,
            # and applying the module twice to one tensor scales each path once
            xs = torch.rand(*shp, dtype=torch.float64, requires_grad=True)
            h = xs * 1.0
            cvec = torch.rand_like(h)
            l.grad_factor = 1.0
            ga, = torch.autograd.grad(l(h), [h], grad_outputs=up, retain_graph=False)
            h = xs * 1.0
            l.grad_factor = f
            tot, = torch.autograd.grad((l(h) * up).sum() + (h * cvec).sum(), [h])
            if not (float((tot - (f * ga + cvec)).abs().max()) <= 1e-10 * max(1.0, float(ga.abs().max()))):
                ck.disagree("the gradient factor also scales gradient that reaches the input tensor through another consumer",
                            dict(case, situation="second consumer"), signature={"layer": name.split("-")[0], "what": "gf-other-consumer"})
            h = xs * 1.0
            tw, = torch.autograd.grad(((l(h) + l(h)) * up).sum(), [h])
            if not (float((tw - 2 * f * ga).abs().max()) <= 1e-10 * max(1.0, float(ga.abs().max()))):
                ck.disagree("applying the module twice to one tensor does not scale each path by the factor once",
                            dict(case, situation="applied twice"), signature={"layer": name.split("-")[0], "what": "gf-twice"})
            ck.count("gradfactor_consumer_checks", 2)
    # convolutions: the gradient with respect to the INPUT against an independent reference - the per-window evaluation of the kernel
    # tree (harness/c12.per_window, numpy, float64) differentiated by central differences (step 1e-5: the tree is a polynomial of degree <= 2^depth
    # in a pixel that is wired several times, error ~1e-9) -
    # at Boolean inputs (where a clamp or an abs would have a kink) and at interior points, soft and hard mode, with and without padding
    from harness.c12 import make_layer, per_window
    import numpy as _np
    for rep in range(4 if ck.tier == "quick" else 16):
        torch.manual_seed(ck.seed * 3 + rep)
        l, geo = make_layer(rng, 2, param="raw")
        if int(_np.prod(geo["in_dim"])) * geo["channels"] > 24:
            continue
        l = l.double().train()
        tau = [0.5, 1.0, 2.0][rep % 3]
        l.temperature = tau
        shape = [geo["channels"]] + geo["in_dim"]
        for mode in ("soft", "hard"):
            l.forward_sampling = mode
            for points in ("boolean", "interior"):
                x = ((torch.rand(*shape) > 0.5).double() if points == "boolean" else torch.rand(*shape, dtype=torch.float64)).requires_grad_(True)
                y = l(x.unsqueeze(0))[0]
                up = torch.rand_like(y)
                g, = torch.autograd.grad(y, [x], grad_outputs=up)
                if mode == "soft":
                    wts = [[w.detach().numpy() / tau for w in lv] for lv in l.tree_weights]
                else:
                    wts = [[_np.where(_np.arange(16)[None, :] == w.detach().numpy().argmax(-1)[:, None], 2000.0, 0.0) for w in lv] for lv in l.tree_weights]
                upn = up.numpy().reshape(geo["kernels"], -1)
                x0 = x.detach().numpy()

                def fval(xv):
                    return float((per_window(l, geo, xv, "soft", wts).reshape(geo["kernels"], -1) * upn).sum())
                ref = _np.zeros_like(x0)
                for idx in _np.ndindex(*x0.shape):
                    xp_, xm_ = x0.copy(), x0.copy()
                    xp_[idx] += 1e-5
                    xm_[idx] -= 1e-5
                    ref[idx] = (fval(xp_) - fval(xm_)) / 2e-5
                case = dict(geo, layer="conv2d", mode=mode, tau=tau, inputs=points)
                ck.case(case, nontrivial=True, kind="conv-input-grad")
                err = float(_np.abs(g.numpy() - ref).max())
                if not err <= 1e-6 * max(1.0, float(_np.abs(ref).max())):
                    ck.disagree("gradient of a convolution with respect to its input differs from the derivative of the per-window relaxation",
                                dict(case, max_abs_error=err, zero_entries_autograd=int((g == 0).sum()), zero_entries_reference=int((ref == 0).sum())),
                                signature={"layer": "conv2d", "what": "input-grad", "mode": mode, "inputs": points})
    # Gumbel modes of a convolution: with the generator re-seeded before every forward the noise is the same draw, so the layer is one
    # fixed smooth function of its input and its logits.  Autograd must differentiate THAT draw (also when a forward is recomputed during
    # backward): compared with central differences of the layer's own forward under the same seed
    from torchlogix.layers import LogicConv2d as _LC
    for par in ("raw", "walsh"):
        torch.manual_seed(ck.seed + 808)
        lg = _LC(in_dim=4, device="cpu", channels=1, num_kernels=2, tree_depth=1, receptive_field_size=2, parametrization=par,
                 weight_init="random", forward_sampling="gumbel_soft", temperature=1.0).double().train()
        gen_g = torch.Generator().manual_seed(ck.seed + 809)
        xg = torch.rand(1, 1, 4, 4, dtype=torch.float64, generator=gen_g).requires_grad_(True)
        wg = lg.tree_weights[0][0]

        def fwd_g(xv):
            torch.manual_seed(4242)
            return lg(xv)
        yg = fwd_g(xg)
        upg = torch.rand(yg.shape, dtype=torch.float64, generator=gen_g)
        g_x, g_w = torch.autograd.grad(yg, [xg, wg], grad_outputs=upg)
        with torch.no_grad():
            def scal(xv):
                return float((fwd_g(xv) * upg).sum())
            x0g = xg.detach().clone()
            ref_x = torch.zeros_like(x0g)
            for idx in _np.ndindex(*x0g.shape):
                xp_, xm_ = x0g.clone(), x0g.clone()
                xp_[idx] += 1e-6
                xm_[idx] -= 1e-6
                ref_x[idx] = (scal(xp_) - scal(xm_)) / 2e-6
            ref_w = torch.zeros_like(wg)
            for idx in _np.ndindex(*wg.shape):
                old_v = float(wg[idx])
                wg[idx] = old_v + 1e-6
                fp = scal(x0g)
                wg[idx] = old_v - 1e-6
                fm = scal(x0g)
                wg[idx] = old_v
                ref_w[idx] = (fp - fm) / 2e-6
        case_g = {"layer": "conv2d", "param": par, "mode": "gumbel_soft", "what": "same-draw gradient"}
        ck.case(case_g, nontrivial=True, kind="conv-gumbel-grad")
        ex, ew = float((g_x - ref_x).abs().max()), float((g_w - ref_w).abs().max())
        if not (ex <= 1e-5 * max(1.0, float(ref_x.abs().max())) and ew <= 1e-5 * max(1.0, float(ref_w.abs().max()))):
            ck.disagree("the gradient of a convolution in a Gumbel mode is not the derivative of the forwarded draw (input / gate-logit gradient "
                        "against central differences under the same seed)", dict(case_g, input_grad_error=ex, logit_grad_error=ew),
                        signature={"layer": "conv2d", "what": "gumbel-grad", "param": par})
    return ck.finish()


def replay(ck, path):
    return run(ck)
