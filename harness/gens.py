"""Registry of all translators: Gen/<name>.v  <-  function returning Coq text."""
from translate import ops, gatecode

ALL = {
    "Ops": ops.gen_ops,
    "Walsh": ops.gen_walsh,
    "Tables": ops.gen_tables,
    "GateCode": gatecode.gen_gatecode,
}
