"""Registry of all translators: Gen/<name>.v  <-  function returning Coq text."""
from translate import ops, gatecode, wrapper, groupsum, guards, parse, models, dispatch, thermo, libio, persist, sampling, storage

ALL = {
    "Ops": ops.gen_ops,
    "Walsh": ops.gen_walsh,
    "Tables": ops.gen_tables,
    "GateCode": gatecode.gen_gatecode,
    "WrapperParams": wrapper.gen_wrapper_params,
    "HostSrc": wrapper.gen_host,
    "GroupSumSrc": groupsum.gen_groupsum,
    "Guards": guards.gen_guards,
    "Parse": parse.gen_parse,
    "Models": models.gen_models,
    "Dispatch": dispatch.gen_dispatch,
    "ThermoSrc": thermo.gen_thermo,
    "LibIO": libio.gen_libio,
    "Persist": persist.gen_persist,
    "PersistSrc": persist.gen_persist_src,
    "Sampling": sampling.gen_sampling,
    "Storage": storage.gen_storage,
}
