#!/bin/bash
# Build the framework from files on disk only (offline).
D="$(cd "$(dirname "$0")" && pwd)"
cd "$D"
export PYTHONPATH=$D:${VERIF_REPO:-/repo}/src PYTHONHASHSEED=0
exec /venv/bin/python -W ignore -m harness.setup 2> >(grep -v "conda\|WARNING: " >&2)
